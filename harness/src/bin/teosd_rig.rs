//! teosd_rig run <script.json> <trace.ndjson> <workdir> [<teosd binary>]
//!
//! END-TO-END TIER of the tower properties (DESIGN.md section 4.1 "teosd-rig").  The REAL `teosd` binary (built from /repo
//! with feature `verif`; path = 4th argument, else $VERIF_TEOSD, else harness/target/product/debug/teosd) runs as a
//! subprocess on a scratch data directory.  Its bitcoind is the simulated node of harness/src/simnode.rs (`NodeState`:
//! chain of real PoW-valid blocks, mempool, verdict semantics, RPC log) served here over HTTP/1.1 JSON-RPC: the methods
//! lightning-block-sync's RpcClient needs (getblockchaininfo, getblockheader, getblock, getbestblockhash, getblockhash)
//! and the ones bitcoincore_rpc needs (sendrawtransaction, getrawtransaction, getblockchaininfo, getblockcount).
//! Requests go over the tower's public HTTP API with the JSON bodies the client sends (serde of the protobuf messages);
//! the durable state is read from the SQLite file; synchronisation is on `last_known_block`.
//!
//! Same script format as tower_rig (subset of ops: boot, crash, restart, poll, register, add, get, sub, mine, ff, reorg,
//! verdict, reject, unreject, mempool_add, mempool_drop, node) and the same trace format, judged by spec/Trace_Tower.tla
//! (through spec/Trace_TowerE2E.tla): Init; Boot; one event per request (frozen = true: memory is not observable); one
//! Chain event per synchronisation in which the tower's last known block moved; Crash; Hung / Died; end.
//!
//! Environment: VERIF_TEOSD (binary under test), VERIF_E2E_SYNC_S (bound on the wait for the tower to record the node's tip as
//! its last known block, default 60), VERIF_E2E_BOOT_S (bound on a start, default 120), VERIF_E2E_SELFTEST_TAKEN_PORT
//! (api | rpc | internal: self-test of the "port taken by somebody else" retry).
//!
//! Rules of the tier: requests / kills are only issued when the tower has caught up with the node (the rig waits first);
//! multi-block operations (ff .. "end", reorg) are atomic for the tower; a blob must fit the 2048-byte body limit of the API.
//!
//! Nothing here decides a property: the rig records what the daemon did.  Everything in teos/src/main.rs (listener
//! order, 6 / 100 block slices, bootstrap sequence, persisted starting block, refusal below 100 blocks) is executed for
//! real - this is the only tier where it is.

use std::collections::{BTreeMap, HashMap};
use std::io::{BufRead, BufReader, Read, Write};
use std::net::{SocketAddr, TcpListener, TcpStream};
use std::path::{Path, PathBuf};
use std::process::{Child, Command, Stdio};
use std::sync::atomic::{AtomicBool, Ordering};
use std::sync::{Arc, Mutex};
use std::time::{Duration, Instant};

use bitcoin::block::Block;
use bitcoin::consensus;
use bitcoin::hashes::Hash;
use bitcoin::secp256k1::{PublicKey, Secp256k1, SecretKey};
use bitcoin::{BlockHash, Transaction, Txid};
use serde_json::{json, Value};

use teos_common::appointment::{Appointment, Locator};
use teos_common::cryptography;
use teos_common::protos as common_msgs;
use teos_common::receipts::{AppointmentReceipt, RegistrationReceipt};
use teos_common::{TowerId, UserId};

use verif_harness::simnode::{Node, NodeState, Verdict};
use verif_harness::tower::Sym;
use verif_harness::trace::TraceWriter;

const IRR: u32 = 100;

/// pid of the running daemon (0 = none): a tool error must not leave it behind
static DAEMON_PID: std::sync::atomic::AtomicU32 = std::sync::atomic::AtomicU32::new(0);

fn die(msg: &str) -> ! {
    eprintln!("teosd_rig: {msg}");
    let pid = DAEMON_PID.load(Ordering::SeqCst);
    if pid != 0 {
        let _ = Command::new("kill").arg("-9").arg(pid.to_string()).status();
    }
    std::process::exit(2);
}

fn env_secs(name: &str, default: u64) -> u64 {
    std::env::var(name).ok().and_then(|s| s.parse::<u64>().ok()).unwrap_or(default)
}

// ---------------------------------------------------------------------------------------------------
// the simulated bitcoind over HTTP JSON-RPC

type Stats = Arc<Mutex<BTreeMap<String, usize>>>;

enum RpcOut {
    /// HTTP status, body
    Json(u16, String),
    /// the node is down / the transport fails: the connection is closed without an answer
    Drop,
}

fn chainwork_hex(height: u32) -> String {
    // every block has work 1 (maximum target): chainwork = height + 1, as harness/src/simnode.rs::chainwork
    format!("{:064x}", height as u64 + 1)
}

fn header_json(n: &NodeState, b: &Block, h: u32) -> Value {
    let hash = b.block_hash();
    let active = n.chain.get(h as usize).map(|x| x.block_hash() == hash).unwrap_or(false);
    let mut v = json!({
        "hash": hash.to_string(),
        "confirmations": if active { n.height() as i64 - h as i64 + 1 } else { -1 },
        "height": h,
        "version": b.header.version.to_consensus(),
        "versionHex": format!("{:08x}", b.header.version.to_consensus()),
        "merkleroot": b.header.merkle_root.to_string(),
        "time": b.header.time,
        "mediantime": b.header.time,
        "nonce": b.header.nonce,
        "bits": format!("{:08x}", b.header.bits.to_consensus()),
        "difficulty": 4.656542373906925e-10,
        "chainwork": chainwork_hex(h),
        "nTx": b.txdata.len(),
    });
    if h > 0 {
        v["previousblockhash"] = json!(b.header.prev_blockhash.to_string());
    }
    if active && (h as usize) + 1 < n.chain.len() {
        v["nextblockhash"] = json!(n.chain[h as usize + 1].block_hash().to_string());
    }
    v
}

fn handle_rpc(node: &Node, stats: &Stats, body: &[u8]) -> RpcOut {
    let req: Value = match serde_json::from_slice(body) {
        Ok(v) => v,
        Err(_) => {
            return RpcOut::Json(500, json!({"result": null, "error": {"code": -32700, "message": "Parse error"}, "id": null}).to_string())
        }
    };
    let id = req["id"].clone();
    let method = req["method"].as_str().unwrap_or("").to_string();
    let params: Vec<Value> = req["params"].as_array().cloned().unwrap_or_default();
    {
        // scripted outage of one RPC method: the connection is dropped without an answer (the node stays up for the rest)
        let mut st = stats.lock().unwrap();
        if st.get(&format!("fault:{method}")).copied().unwrap_or(0) > 0 {
            *st.entry("dropped".to_string()).or_insert(0) += 1;
            return RpcOut::Drop;
        }
        *st.entry(method.clone()).or_insert(0) += 1;
    }
    let ok = |v: Value| RpcOut::Json(200, json!({"result": v, "error": null, "id": id}).to_string());
    let err = |code: i32, msg: &str| {
        RpcOut::Json(if code == -32601 { 404 } else { 500 }, json!({"result": null, "error": {"code": code, "message": msg}, "id": id}).to_string())
    };
    let mut n = node.lock().unwrap();
    if !n.up {
        *stats.lock().unwrap().entry("dropped".to_string()).or_insert(0) += 1;
        return RpcOut::Drop;
    }
    let hash_param = |i: usize| params.get(i).and_then(|v| v.as_str()).and_then(|s| s.parse::<BlockHash>().ok());
    match method.as_str() {
        "getblockchaininfo" => {
            let tip = n.tip().clone();
            ok(json!({
                "chain": "regtest",
                "blocks": n.height(),
                "headers": n.height(),
                "bestblockhash": tip.block_hash().to_string(),
                "difficulty": 4.656542373906925e-10,
                "time": tip.header.time,
                "mediantime": tip.header.time,
                "verificationprogress": 1.0,
                "initialblockdownload": false,
                "chainwork": chainwork_hex(n.height()),
                "size_on_disk": 0,
                "pruned": false,
                "warnings": ""
            }))
        }
        // bitcoincore_rpc asks for the node's version before it parses getblockchaininfo
        "getnetworkinfo" => ok(json!({
            "version": 250000, "subversion": "/Satoshi:25.0.0(simulated)/", "protocolversion": 70016, "localservices": "0000000000000409",
            "localservicesnames": ["NETWORK", "WITNESS", "NETWORK_LIMITED"], "localrelay": true, "timeoffset": 0, "networkactive": true,
            "connections": 0, "connections_in": 0, "connections_out": 0, "networks": [], "relayfee": 0.00001, "incrementalfee": 0.00001,
            "localaddresses": [], "warnings": ""
        })),
        "getbestblockhash" => ok(json!(n.tip().block_hash().to_string())),
        "getblockcount" => {
            if !n.rpc_up {
                RpcOut::Drop
            } else {
                ok(json!(n.height()))
            }
        }
        "getblockhash" => match params.first().and_then(|v| v.as_u64()).and_then(|h| n.chain.get(h as usize)) {
            Some(b) => ok(json!(b.block_hash().to_string())),
            None => err(-8, "Block height out of range"),
        },
        "getblockheader" => match hash_param(0).and_then(|h| n.known.get(&h).cloned()) {
            Some((b, h)) => {
                if params.get(1).and_then(|v| v.as_bool()) == Some(false) {
                    ok(json!(hex::encode(consensus::serialize(&b.header))))
                } else {
                    ok(header_json(&n, &b, h))
                }
            }
            None => err(-5, "Block not found"),
        },
        "getblock" => match hash_param(0).and_then(|h| n.known.get(&h).cloned()) {
            Some((b, _)) => match params.get(1).and_then(|v| v.as_u64()).unwrap_or(1) {
                0 => ok(json!(hex::encode(consensus::serialize(&b)))),
                _ => err(-8, "only verbosity 0 is simulated"),
            },
            None => err(-5, "Block not found"),
        },
        "sendrawtransaction" => {
            let hex_tx = params.first().and_then(|v| v.as_str()).unwrap_or("");
            let tx: Transaction = match hex::decode(hex_tx).ok().and_then(|b| consensus::deserialize(&b).ok()) {
                Some(t) => t,
                None => return err(-22, "TX decode failed"),
            };
            match n.send_raw_transaction(&tx) {
                Verdict::Ok => ok(json!(tx.compute_txid().to_string())),
                Verdict::Code(c) => err(c, "simulated verdict"),
                Verdict::Err => RpcOut::Drop,
            }
        }
        "getrawtransaction" => {
            let txid: Txid = match params.first().and_then(|v| v.as_str()).and_then(|s| s.parse().ok()) {
                Some(t) => t,
                None => return err(-8, "txid must be of length 64"),
            };
            match n.get_raw_transaction(&txid) {
                Err(()) => RpcOut::Drop,
                Ok(None) => err(-5, "No such mempool transaction. Use -txindex or provide a block hash to enable blockchain transaction queries."),
                Ok(Some(tx)) => {
                    let h = hex::encode(consensus::serialize(&tx));
                    if params.get(1).map(|v| v.as_bool() == Some(true) || v.as_u64().map(|x| x > 0).unwrap_or(false)).unwrap_or(false) {
                        ok(json!({"hex": h, "txid": txid.to_string(), "hash": txid.to_string(), "size": 0, "vsize": 0, "version": 2,
                                  "locktime": 0, "vin": [], "vout": []}))
                    } else {
                        ok(json!(h))
                    }
                }
            }
        }
        other => err(-32601, &format!("method {other} not simulated")),
    }
}

fn serve_connection(mut stream: TcpStream, node: Node, stats: Stats, stop: Arc<AtomicBool>) {
    let _ = stream.set_nodelay(true);
    let _ = stream.set_read_timeout(Some(Duration::from_millis(500)));
    let mut reader = BufReader::new(match stream.try_clone() {
        Ok(s) => s,
        Err(_) => return,
    });
    loop {
        // request line + headers
        let mut content_length = 0usize;
        let mut close = false;
        let mut first = true;
        let mut got_request = false;
        loop {
            let mut line = String::new();
            match reader.read_line(&mut line) {
                Ok(0) => return,
                Ok(_) => {}
                Err(e) if e.kind() == std::io::ErrorKind::WouldBlock || e.kind() == std::io::ErrorKind::TimedOut => {
                    if stop.load(Ordering::SeqCst) {
                        return;
                    }
                    if !line.is_empty() {
                        // a partial line was consumed: give up on this connection (never happens on loopback)
                        return;
                    }
                    continue;
                }
                Err(_) => return,
            }
            let l = line.trim_end();
            if first {
                if l.is_empty() {
                    continue;
                }
                first = false;
                got_request = true;
                continue;
            }
            if l.is_empty() {
                break;
            }
            if let Some(i) = l.find(':') {
                let (k, v) = (l[..i].trim().to_ascii_lowercase(), l[i + 1..].trim());
                if k == "content-length" {
                    content_length = v.parse().unwrap_or(0);
                } else if k == "connection" && v.eq_ignore_ascii_case("close") {
                    close = true;
                }
            }
        }
        if !got_request {
            return;
        }
        let mut body = vec![0u8; content_length];
        let mut got = 0usize;
        let t0 = Instant::now();
        while got < content_length {
            match reader.read(&mut body[got..]) {
                Ok(0) => return,
                Ok(k) => got += k,
                Err(e) if e.kind() == std::io::ErrorKind::WouldBlock || e.kind() == std::io::ErrorKind::TimedOut => {
                    if stop.load(Ordering::SeqCst) || t0.elapsed() > Duration::from_secs(20) {
                        return;
                    }
                }
                Err(_) => return,
            }
        }
        match handle_rpc(&node, &stats, &body) {
            RpcOut::Drop => {
                let _ = stream.shutdown(std::net::Shutdown::Both);
                return;
            }
            RpcOut::Json(status, text) => {
                let reason = match status {
                    200 => "OK",
                    404 => "Not Found",
                    _ => "Internal Server Error",
                };
                let head = format!(
                    "HTTP/1.1 {status} {reason}\r\nContent-Type: application/json\r\nContent-Length: {}\r\nConnection: {}\r\n\r\n",
                    text.len(),
                    if close { "close" } else { "keep-alive" }
                );
                if stream.write_all(head.as_bytes()).is_err() || stream.write_all(text.as_bytes()).is_err() || stream.flush().is_err() {
                    return;
                }
                if close {
                    let _ = stream.shutdown(std::net::Shutdown::Both);
                    return;
                }
            }
        }
    }
}

struct RpcServer {
    port: u16,
    stop: Arc<AtomicBool>,
    stats: Stats,
}

impl RpcServer {
    fn start(node: Node) -> RpcServer {
        let listener = TcpListener::bind("127.0.0.1:0").unwrap_or_else(|e| die(&format!("cannot bind a loopback port for the simulated bitcoind: {e}")));
        let port = listener.local_addr().unwrap().port();
        listener.set_nonblocking(true).unwrap();
        let stop = Arc::new(AtomicBool::new(false));
        let stats: Stats = Arc::new(Mutex::new(BTreeMap::new()));
        let (stop2, stats2) = (stop.clone(), stats.clone());
        std::thread::spawn(move || loop {
            if stop2.load(Ordering::SeqCst) {
                return;
            }
            match listener.accept() {
                Ok((s, _)) => {
                    let _ = s.set_nonblocking(false);
                    let (n, st, sp) = (node.clone(), stats2.clone(), stop2.clone());
                    std::thread::spawn(move || serve_connection(s, n, st, sp));
                }
                Err(e) if e.kind() == std::io::ErrorKind::WouldBlock => std::thread::sleep(Duration::from_millis(2)),
                Err(_) => std::thread::sleep(Duration::from_millis(2)),
            }
        });
        RpcServer { port, stop, stats }
    }
}

impl Drop for RpcServer {
    fn drop(&mut self) {
        self.stop.store(true, Ordering::SeqCst);
    }
}

// ---------------------------------------------------------------------------------------------------
// minimal HTTP client for the tower's public API

fn find(hay: &[u8], needle: &[u8]) -> Option<usize> {
    if needle.is_empty() || hay.len() < needle.len() {
        return None;
    }
    (0..=hay.len() - needle.len()).find(|&i| &hay[i..i + needle.len()] == needle)
}

fn dechunk(mut b: &[u8]) -> Option<Vec<u8>> {
    let mut out = Vec::new();
    loop {
        let i = find(b, b"\r\n")?;
        let line = std::str::from_utf8(&b[..i]).ok()?;
        let n = usize::from_str_radix(line.split(';').next()?.trim(), 16).ok()?;
        b = &b[i + 2..];
        if n == 0 {
            return Some(out);
        }
        if b.len() < n + 2 {
            return None;
        }
        out.extend_from_slice(&b[..n]);
        b = &b[n + 2..];
    }
}

/// One request on its own connection (`Connection: close`). Ok((status, body)) or Err(why no complete answer came).
fn http_call(port: u16, method: &str, path: &str, body: Option<&str>, deadline: Duration) -> Result<(u16, Vec<u8>), String> {
    let addr: SocketAddr = format!("127.0.0.1:{port}").parse().unwrap();
    let t0 = Instant::now();
    let mut stream = TcpStream::connect_timeout(&addr, Duration::from_secs(5)).map_err(|e| format!("connect:{:?}", e.kind()))?;
    let _ = stream.set_nodelay(true);
    let _ = stream.set_read_timeout(Some(Duration::from_millis(200)));
    let mut req = format!("{method} {path} HTTP/1.1\r\nHost: 127.0.0.1:{port}\r\nConnection: close\r\nAccept: */*\r\n");
    if let Some(b) = body {
        req += &format!("Content-Type: application/json\r\nContent-Length: {}\r\n\r\n{}", b.len(), b);
    } else {
        req += "\r\n";
    }
    stream.write_all(req.as_bytes()).map_err(|e| format!("write:{:?}", e.kind()))?;
    let _ = stream.flush();
    let mut buf: Vec<u8> = Vec::new();
    let mut chunk = [0u8; 16384];
    let complete = |buf: &[u8]| -> Option<(u16, Vec<u8>)> {
        let end = find(buf, b"\r\n\r\n")?;
        let head = String::from_utf8_lossy(&buf[..end]).to_string();
        let mut lines = head.split("\r\n");
        let status: u16 = lines.next()?.split(' ').nth(1)?.parse().ok()?;
        let mut cl: Option<usize> = None;
        let mut chunked = false;
        for l in lines {
            if let Some(i) = l.find(':') {
                let (k, v) = (l[..i].trim().to_ascii_lowercase(), l[i + 1..].trim().to_ascii_lowercase());
                if k == "content-length" {
                    cl = v.parse().ok();
                } else if k == "transfer-encoding" && v.contains("chunked") {
                    chunked = true;
                }
            }
        }
        let rest = &buf[end + 4..];
        if chunked {
            dechunk(rest).map(|b| (status, b))
        } else if let Some(cl) = cl {
            if rest.len() >= cl {
                Some((status, rest[..cl].to_vec()))
            } else {
                None
            }
        } else if status == 204 || status == 304 {
            Some((status, vec![]))
        } else {
            None
        }
    };
    loop {
        if let Some(r) = complete(&buf) {
            return Ok(r);
        }
        if t0.elapsed() > deadline {
            return Err("timeout".into());
        }
        match stream.read(&mut chunk) {
            Ok(0) => {
                // EOF: a response without length is complete now
                if let Some(end) = find(&buf, b"\r\n\r\n") {
                    let head = String::from_utf8_lossy(&buf[..end]).to_string();
                    if let Some(status) = head.split("\r\n").next().and_then(|l| l.split(' ').nth(1)).and_then(|s| s.parse::<u16>().ok()) {
                        return Ok((status, buf[end + 4..].to_vec()));
                    }
                }
                return Err("closed_without_response".into());
            }
            Ok(n) => buf.extend_from_slice(&chunk[..n]),
            Err(e) if e.kind() == std::io::ErrorKind::WouldBlock || e.kind() == std::io::ErrorKind::TimedOut => continue,
            Err(e) => return Err(format!("read:{:?}", e.kind())),
        }
    }
}

// ---------------------------------------------------------------------------------------------------
// durable state: rows of the SQLite file mapped to symbols (same projection as harness/src/tower.rs::Recorder::project_db)

struct Db {
    path: PathBuf,
    conn: Option<rusqlite::Connection>,
}

impl Db {
    fn new(path: PathBuf) -> Db {
        Db { path, conn: None }
    }

    fn conn(&mut self) -> Option<&rusqlite::Connection> {
        if self.conn.is_none() {
            if !self.path.exists() {
                return None;
            }
            // a plain connection (never written through): if the daemon was killed inside a transaction this connection
            // rolls the hot journal back exactly as the restarted daemon would
            let c = rusqlite::Connection::open_with_flags(
                &self.path,
                rusqlite::OpenFlags::SQLITE_OPEN_READ_WRITE | rusqlite::OpenFlags::SQLITE_OPEN_NO_MUTEX,
            )
            .ok()?;
            let _ = c.busy_timeout(Duration::from_secs(10));
            self.conn = Some(c);
        }
        self.conn.as_ref()
    }

    fn close(&mut self) {
        self.conn = None;
    }

    /// Ok(None): no row (or no file / no table yet)
    fn last_known(&mut self) -> Result<Option<BlockHash>, String> {
        let c = match self.conn() {
            Some(c) => c,
            None => return Ok(None),
        };
        let mut st = match c.prepare("SELECT block_hash FROM last_known_block WHERE id=0") {
            Ok(s) => s,
            Err(e) => {
                let m = e.to_string();
                return if m.contains("no such table") { Ok(None) } else { Err(m) };
            }
        };
        match st.query_row([], |r| r.get::<_, Vec<u8>>(0)) {
            Ok(raw) => BlockHash::from_slice(&raw).map(Some).map_err(|e| e.to_string()),
            Err(rusqlite::Error::QueryReturnedNoRows) => Ok(None),
            Err(e) => Err(e.to_string()),
        }
    }

    fn tower_key(&mut self) -> Option<(SecretKey, usize)> {
        let c = self.conn()?;
        let n: i64 = c.query_row("SELECT COUNT(*) FROM keys", [], |r| r.get(0)).ok()?;
        let s: String = c.query_row("SELECT key FROM keys ORDER BY id DESC LIMIT 1", [], |r| r.get(0)).ok()?;
        s.parse::<SecretKey>().ok().map(|k| (k, n as usize))
    }

    fn rows(&mut self, sym: &Sym) -> Result<(Vec<Vec<i64>>, Vec<Vec<i64>>, Vec<Vec<i64>>), String> {
        let c = match self.conn() {
            Some(c) => c,
            None => return Ok((vec![], vec![], vec![])),
        };
        let e = |x: rusqlite::Error| x.to_string();
        let us = |raw: &Vec<u8>| *sym.user_sym.get(raw).unwrap_or(&-1);
        let mut users = Vec::new();
        let mut appts = Vec::new();
        let mut trackers = Vec::new();
        {
            let mut st = c.prepare("SELECT user_id, available_slots, subscription_start, subscription_expiry FROM users").map_err(e)?;
            let mut rows = st.query([]).map_err(e)?;
            while let Some(r) = rows.next().map_err(e)? {
                let id: Vec<u8> = r.get(0).map_err(e)?;
                users.push(vec![us(&id), r.get::<_, i64>(1).map_err(e)?, r.get::<_, i64>(2).map_err(e)?, r.get::<_, i64>(3).map_err(e)?]);
            }
        }
        let mut by_uuid: HashMap<Vec<u8>, (i64, i64)> = HashMap::new();
        {
            let mut st = c
                .prepare("SELECT UUID, locator, encrypted_blob, to_self_delay, user_signature, start_block, user_id FROM appointments")
                .map_err(e)?;
            let mut rows = st.query([]).map_err(e)?;
            while let Some(r) = rows.next().map_err(e)? {
                let uuid: Vec<u8> = r.get(0).map_err(e)?;
                let loc: Vec<u8> = r.get(1).map_err(e)?;
                let blob: Vec<u8> = r.get(2).map_err(e)?;
                let tsd: i64 = r.get(3).map_err(e)?;
                let sig: String = r.get(4).unwrap_or_else(|_| {
                    let b: Vec<u8> = r.get(4).unwrap_or_default();
                    String::from_utf8_lossy(&b).to_string()
                });
                let start: i64 = r.get(5).map_err(e)?;
                let uid: Vec<u8> = r.get(6).map_err(e)?;
                let u = us(&uid);
                let l = *sym.loc_sym.get(&loc).unwrap_or(&-1);
                let (key, pay) = *sym.blobs.get(&blob).unwrap_or(&(-999, -999));
                let ver = *sym.sigs.get(&sig).unwrap_or(&-1);
                by_uuid.insert(uuid, (u, l));
                appts.push(vec![u, l, key, pay, blob.len() as i64, tsd, ver, start]);
            }
        }
        {
            let mut st = c.prepare("SELECT UUID, dispute_tx, penalty_tx, height, confirmed FROM trackers").map_err(e)?;
            let mut rows = st.query([]).map_err(e)?;
            while let Some(r) = rows.next().map_err(e)? {
                let uuid: Vec<u8> = r.get(0).map_err(e)?;
                let d: Vec<u8> = r.get(1).map_err(e)?;
                let p: Vec<u8> = r.get(2).map_err(e)?;
                let h: i64 = r.get(3).map_err(e)?;
                let cf: bool = r.get(4).map_err(e)?;
                let ds = consensus::deserialize::<Transaction>(&d).map(|t| sym.sym_of_txid(&t.compute_txid())).unwrap_or(-1);
                let ps = consensus::deserialize::<Transaction>(&p).map(|t| sym.sym_of_txid(&t.compute_txid())).unwrap_or(-1);
                let (u, l) = *by_uuid.get(&uuid).unwrap_or(&(-1, -1));
                trackers.push(vec![u, l, ds, ps, h, cf as i64]);
            }
        }
        users.sort();
        appts.sort();
        trackers.sort();
        Ok((users, appts, trackers))
    }
}

// ---------------------------------------------------------------------------------------------------
// the daemon

struct Daemon {
    child: Child,
    api_port: u16,
}

impl Drop for Daemon {
    fn drop(&mut self) {
        let _ = self.child.kill();
        let _ = self.child.wait();
        DAEMON_PID.store(0, Ordering::SeqCst);
    }
}

fn three_free_ports() -> Vec<TcpListener> {
    // held together so that they differ; released just before the daemon binds them
    let mk = || TcpListener::bind("127.0.0.1:0").unwrap_or_else(|e| die(&format!("cannot bind a loopback port: {e}")));
    vec![mk(), mk(), mk()]
}

/// what the daemon prints when one of its listeners cannot bind (the process itself lives on: the servers run in tasks)
const BIND_ERRORS: [&str; 4] = ["Address already in use", "AddrInUse", "error creating server listener", "error binding to"];

struct Cfg {
    slots: u32,
    duration: u32,
    grace: u32,
    h0: u32,
}

fn cfg_of(v: &Value) -> Cfg {
    if v["scale"].as_u64().unwrap_or(1) != 1 {
        die("scaled slot counters are not part of the end-to-end tier");
    }
    if v["cache"].as_u64().unwrap_or(6) != 6 || v["idx"].as_u64().unwrap_or(100) != 100 {
        die("the daemon's cache sizes are fixed (6 / 100): cfg.cache / cfg.idx must say so");
    }
    Cfg {
        slots: v["S"].as_u64().unwrap_or_else(|| die("cfg.S")) as u32,
        duration: v["D"].as_u64().unwrap_or_else(|| die("cfg.D")) as u32,
        grace: v["G"].as_u64().unwrap_or_else(|| die("cfg.G")) as u32,
        h0: v["h0"].as_u64().unwrap_or(110) as u32,
    }
}

struct Exec {
    tw: TraceWriter,
    sym: Sym,
    node: Node,
    server: RpcServer,
    db: Db,
    cfg: Cfg,
    teosd: PathBuf,
    datadir: PathBuf,
    log_path: PathBuf,
    daemon: Option<Daemon>,
    tower_pk: Option<PublicKey>,
    /// the block the tower's durable last known block was last observed at (boot tip until the first movement)
    tower_tip: Option<BlockHash>,
    dead: bool,
    boots: usize,
    aborts: usize,
    sync_s: u64,
    boot_s: u64,
    max_sync_ms: u128,
    /// the tower has been seen failing to reach the node and the fault is still on: requests are sent without waiting
    /// for the tower to catch up with the node's tip
    outage: bool,
    /// number of dropped node RPCs when the current fault was armed
    drops_base: usize,
}

impl Exec {
    fn drops(&self) -> usize {
        self.server.stats.lock().unwrap().get("dropped").copied().unwrap_or(0)
    }

    fn faults_on(&self) -> bool {
        let up = self.node.lock().unwrap().up;
        !up || self.server.stats.lock().unwrap().iter().any(|(k, v)| k.starts_with("fault:") && *v > 0)
    }

    /// Waits (bounded) until the tower has made a node RPC that was dropped, gives it a moment to act on the failure, and
    /// records the obligation: from now on the tower knows the node is unreachable.
    fn await_outage(&mut self) {
        if self.dead || self.daemon.is_none() {
            return;
        }
        let t0 = Instant::now();
        while self.drops() <= self.drops_base {
            if t0.elapsed() > Duration::from_secs(20) || self.daemon_exited().is_some() {
                self.emit_plain(json!({"act": "Note", "what": "no_outage_seen"}));
                return;
            }
            std::thread::sleep(Duration::from_millis(10));
        }
        std::thread::sleep(Duration::from_millis(400));
        self.outage = true;
        self.emit_plain(json!({"act": "Flag", "reachable": false, "why": "a node RPC of the tower was dropped"}));
    }

    // ---- symbols

    fn tx(&mut self, s: i64) -> Transaction {
        let tx = self.sym.tx(s);
        if s % 10 != 0 {
            let d = self.sym.tx((s / 10) * 10);
            self.node.lock().unwrap().parent.insert(tx.compute_txid(), d.compute_txid());
        }
        tx
    }

    fn txs(&mut self, v: &Value) -> Vec<Transaction> {
        v.as_array().map(|a| a.iter().map(|x| self.tx(x.as_i64().unwrap())).collect()).unwrap_or_default()
    }

    fn blk_json(&mut self, b: &Block, h: u32) -> Value {
        let id = self.sym.block(&b.block_hash());
        json!({"id": id, "h": h, "keys": self.sym.block_keys(b)})
    }

    fn height_of(&self, h: &BlockHash) -> Option<u32> {
        self.node.lock().unwrap().known.get(h).map(|(_, x)| *x)
    }

    // ---- projection and events

    fn project(&mut self) -> Value {
        let mut last_err = String::new();
        for _ in 0..50 {
            let rows = self.db.rows(&self.sym);
            let lk = self.db.last_known();
            match (rows, lk) {
                (Ok((users, appts, trackers)), Ok(lk)) => {
                    let (id, h) = match lk {
                        Some(bh) => (self.sym.block(&bh), self.height_of(&bh).map(|x| x as i64).unwrap_or(0)),
                        None => (0, 0),
                    };
                    return json!({"users": users, "appts": appts, "trackers": trackers, "lastKnown": id, "lastKnownH": h});
                }
                (Err(e), _) | (_, Err(e)) => {
                    last_err = e;
                    self.db.close();
                    std::thread::sleep(Duration::from_millis(100));
                }
            }
        }
        die(&format!("cannot read the tower database: {last_err}"));
    }

    /// memory is not observable from outside the process: the fields are present (shape of tower.rs) and, the events being
    /// marked frozen, ignored by the validator except at Boot, where they state what the bootstrap is specified to build
    fn with_memory_shape(&self, db: Value) -> Value {
        let tip_h = self.tower_tip.and_then(|t| self.height_of(&t)).unwrap_or(0);
        let mut post = db.clone();
        post["gk"] = db["users"].clone();
        post["gkH"] = json!(tip_h);
        post["wH"] = json!(tip_h);
        post["cH"] = json!(tip_h);
        post["cache"] = json!([]);
        post["index"] = json!([]);
        post["reorged"] = json!([]);
        post["memo"] = json!([]);
        // the flag is not observable from outside the process either: what the specification holds after the last Flag /
        // Chain event (the obligations are the replies: 'service unavailable' while it is down, normal answers afterwards)
        post["reachable"] = json!(!self.outage);
        post
    }

    /// node RPCs (send / get) not yet attributed to an event, in call order
    fn rpc_delta(&mut self) -> Vec<Value> {
        let mut node = self.node.lock().unwrap();
        let mut out = Vec::new();
        for e in node.rpc_log.iter_mut() {
            if !e.taken {
                e.taken = true;
                out.push(json!([e.method, self.sym.sym_of_txid(&e.txid), e.verdict]));
            }
        }
        out
    }

    fn emit(&mut self, mut fields: Value, abort: &str, post: Option<Value>, with_rpc: bool) {
        let db = match post {
            Some(p) => p,
            None => self.project(),
        };
        fields["rpc"] = if with_rpc { Value::Array(self.rpc_delta()) } else { json!([]) };
        fields["abort"] = json!(abort);
        fields["frozen"] = json!(true);
        fields["post"] = self.with_memory_shape(db);
        if !abort.is_empty() {
            self.aborts += 1;
        }
        self.tw.emit(&fields);
    }

    fn emit_plain(&mut self, fields: Value) {
        self.tw.emit(&fields);
    }

    // ---- the daemon's life

    fn daemon_exited(&mut self) -> Option<String> {
        match self.daemon.as_mut() {
            None => Some("not running".into()),
            Some(d) => match d.child.try_wait() {
                Ok(Some(st)) => Some(format!("{st}")),
                _ => None,
            },
        }
    }

    fn log_tail_contains(&self, from: u64, needles: &[&str]) -> bool {
        let text = std::fs::read(&self.log_path).unwrap_or_default();
        let tail = String::from_utf8_lossy(&text[(from as usize).min(text.len())..]).to_string();
        needles.iter().any(|n| tail.contains(n))
    }

    /// The 100 (or, on a shorter chain, all) blocks ending at `tip`, oldest first.
    fn blocks_ending_at(&mut self, tip: &BlockHash) -> Vec<Value> {
        let mut v: Vec<(Block, u32)> = Vec::new();
        {
            let node = self.node.lock().unwrap();
            let mut cur = *tip;
            while v.len() < IRR as usize {
                match node.known.get(&cur) {
                    Some((b, h)) => {
                        v.push((b.clone(), *h));
                        if *h == 0 {
                            break;
                        }
                        cur = b.header.prev_blockhash;
                    }
                    None => break,
                }
            }
        }
        v.reverse();
        v.iter().map(|(b, h)| self.blk_json(b, *h)).collect()
    }

    fn boot(&mut self) -> bool {
        self.daemon = None;
        self.db.close();
        std::fs::create_dir_all(&self.datadir).unwrap();
        // what the daemon will find
        let pre_lk = match self.db.last_known() {
            Ok(x) => x,
            Err(e) => die(&format!("cannot read last_known_block before the start: {e}")),
        };
        let pre_post = if pre_lk.is_some() { Some(self.project()) } else { None };
        self.db.close();
        let node_tip = { self.node.lock().unwrap().tip().block_hash() };
        let boot_tip = pre_lk.unwrap_or(node_tip);
        let boot_h = self.height_of(&boot_tip).unwrap_or(0);
        let mut attempt = 0;
        let outcome: Result<(), String> = loop {
            attempt += 1;
            let mut held = three_free_ports();
            let (api, rpc, internal) = (held[0].local_addr().unwrap().port(), held[1].local_addr().unwrap().port(), held[2].local_addr().unwrap().port());
            // self-test of the retry path: keep one of the ports taken during the first attempt
            let keep: Option<TcpListener> = match (attempt, std::env::var("VERIF_E2E_SELFTEST_TAKEN_PORT").ok().as_deref()) {
                (1, Some("api")) => Some(held.remove(0)),
                (1, Some("rpc")) => Some(held.remove(1)),
                (1, Some("internal")) => Some(held.remove(2)),
                _ => None,
            };
            drop(held);
            let toml = format!(
                "internal_api_bind = \"127.0.0.1\"\ninternal_api_port = {internal}\npolling_delta = 1\nsubscription_slots = {}\nsubscription_duration = {}\nexpiry_delta = {}\n",
                self.cfg.slots, self.cfg.duration, self.cfg.grace
            );
            std::fs::write(self.datadir.join("teos.toml"), toml).unwrap();
            let log_from = std::fs::metadata(&self.log_path).map(|m| m.len()).unwrap_or(0);
            let log = std::fs::OpenOptions::new().create(true).append(true).open(&self.log_path).unwrap();
            let log2 = log.try_clone().unwrap();
            let child = Command::new(&self.teosd)
                .arg("--datadir")
                .arg(&self.datadir)
                .args(["--btcnetwork", "regtest", "--btcrpcuser", "verif", "--btcrpcpassword", "verif", "--btcrpcconnect", "127.0.0.1"])
                .arg("--btcrpcport")
                .arg(self.server.port.to_string())
                .args(["--apibind", "127.0.0.1", "--apiport"])
                .arg(api.to_string())
                .args(["--rpcbind", "127.0.0.1", "--rpcport"])
                .arg(rpc.to_string())
                .env("RUST_BACKTRACE", "0")
                .stdin(Stdio::null())
                .stdout(Stdio::from(log))
                .stderr(Stdio::from(log2))
                .spawn()
                .unwrap_or_else(|e| die(&format!("cannot start {}: {e}", self.teosd.display())));
            DAEMON_PID.store(child.id(), Ordering::SeqCst);
            self.daemon = Some(Daemon { child, api_port: api });
            self.boots += 1;
            let t0 = Instant::now();
            let res: Result<(), String> = loop {
                if let Some(st) = self.daemon_exited() {
                    break Err(format!("exit:{st}"));
                }
                if let Ok((status, _)) = http_call(api, "GET", "/ping", None, Duration::from_secs(2)) {
                    if status == 200 || status == 204 {
                        // the gRPC servers behind the HTTP API run in tasks of their own: one that could not bind its port
                        // leaves a daemon that answers every request with "unavailable"
                        std::thread::sleep(Duration::from_millis(150));
                        if self.log_tail_contains(log_from, &BIND_ERRORS) {
                            break Err("cannot_bind".into());
                        }
                        break Ok(());
                    }
                }
                if t0.elapsed() > Duration::from_secs(self.boot_s) {
                    break Err("timeout".into());
                }
                // loopback ports are machine-wide: somebody else may have taken one between our probe and the daemon's bind
                if t0.elapsed() > Duration::from_millis(300) && self.log_tail_contains(log_from, &BIND_ERRORS) {
                    break Err("cannot_bind".into());
                }
                std::thread::sleep(Duration::from_millis(20));
            };
            drop(keep);
            match res {
                Ok(()) => break Ok(()),
                Err(why) => {
                    self.daemon = None;
                    if attempt < 6 && self.log_tail_contains(log_from, &BIND_ERRORS) {
                        self.emit_plain(json!({"act": "Note", "what": "port_taken_retry", "attempt": attempt, "why": why}));
                        continue;
                    }
                    break Err(why);
                }
            }
        };
        match outcome {
            Err(why) => {
                let exit1 = why.contains("exit status: 1");
                let node_h = { self.node.lock().unwrap().height() };
                if node_h < IRR && exit1 {
                    // main.rs: "Not enough blocks to start teosd".  The scenario goes on (more blocks, another start on the
                    // same data directory, which must then work: a refusal although the node has 100 blocks is an abort).
                    self.emit_plain(json!({"act": "Note", "what": "refused_to_start", "height": boot_h, "node_height": node_h,
                                           "from_last_known_block": pre_lk.is_some(), "why": why}));
                    return false;
                } else {
                    let cls = if why == "timeout" { "boot_timeout".to_string() } else { format!("boot_{}", why.replace("exit status: ", "").replace(':', "_").replace(' ', "_")) };
                    self.emit(json!({"act": "Boot", "blocks": [], "tipH": 0, "tower_id": "", "detail": why}), &cls, None, false);
                }
                self.dead = true;
                false
            }
            Ok(()) => {
                let (sk, nkeys) = self.db.tower_key().unwrap_or_else(|| die("the daemon serves requests but its database holds no tower key"));
                let pk = PublicKey::from_secret_key(&Secp256k1::new(), &sk);
                self.tower_pk = Some(pk);
                self.tower_tip = Some(boot_tip);
                let blocks = self.blocks_ending_at(&boot_tip);
                let abort = if boot_h < IRR { format!("started_with_{}_blocks", blocks.len()) } else { String::new() };
                // restart: the durable state the daemon found (nothing is written by the bootstrap itself; what the catch-up
                // poll then did is the Chain event that follows).  First start: the state once the interfaces are up.
                self.emit(json!({"act": "Boot", "blocks": blocks, "tipH": boot_h, "tower_id": pk.to_string(), "keys": nkeys}), &abort, pre_post, false);
                self.observe_chain();
                true
            }
        }
    }

    fn crash(&mut self) {
        // requests / kills while the tower is processing blocks are not part of this tier
        self.sync();
        self.daemon = None; // SIGKILL + wait
        self.db.close();
        self.emit_plain(json!({"act": "Crash"}));
    }

    /// the chain events between two tower tips, as SpvClient delivers them: disconnections newest first, then connections
    /// oldest first
    fn chain_between(&mut self, from: &BlockHash, to: &BlockHash) -> Vec<Value> {
        let (mut disc, mut conn): (Vec<(Block, u32)>, Vec<(Block, u32)>) = (Vec::new(), Vec::new());
        {
            let node = self.node.lock().unwrap();
            let get = |h: &BlockHash| node.known.get(h).cloned().unwrap_or_else(|| die("the tower's tip is a block the node never produced"));
            let (mut a, mut b) = (get(from), get(to));
            while a.0.block_hash() != b.0.block_hash() {
                if a.1 >= b.1 {
                    let prev = a.0.header.prev_blockhash;
                    disc.push(a);
                    a = get(&prev);
                } else {
                    let prev = b.0.header.prev_blockhash;
                    conn.push(b);
                    b = get(&prev);
                }
            }
        }
        conn.reverse();
        let mut out = Vec::new();
        for (b, h) in disc.iter() {
            let j = self.blk_json(b, *h);
            out.push(json!(["disc", j]));
        }
        for (b, h) in conn.iter() {
            let j = self.blk_json(b, *h);
            out.push(json!(["conn", j]));
        }
        out
    }

    /// If the tower's last known block moved since it was last observed: one Chain event.
    fn observe_chain(&mut self) -> bool {
        let lk = match self.db.last_known() {
            Ok(Some(x)) => x,
            _ => return false,
        };
        let old = match self.tower_tip {
            Some(t) => t,
            None => return false,
        };
        if lk == old {
            return false;
        }
        let chain = self.chain_between(&old, &lk);
        self.tower_tip = Some(lk);
        let tip = self.sym.block(&lk);
        self.emit(json!({"act": "Chain", "chain": chain, "tip": tip}), "", None, true);
        true
    }

    fn needs_sync(&self) -> bool {
        let (tip, h) = {
            let n = self.node.lock().unwrap();
            (n.tip().block_hash(), n.height())
        };
        match self.tower_tip {
            Some(t) => t != tip && h > self.height_of(&t).unwrap_or(0),
            None => false,
        }
    }

    /// Waits (bounded) until the tower's durable last known block is the node's tip, then records what happened.
    fn sync(&mut self) {
        if self.dead || self.daemon.is_none() {
            return;
        }
        let node_tip = { self.node.lock().unwrap().tip().block_hash() };
        // a tip that is not better than the tower's is never adopted, and a poll that finds nothing new writes nothing
        if !self.needs_sync() {
            if self.daemon_exited().is_some() {
                self.emit_plain(json!({"act": "Died", "signal": 0}));
                self.daemon = None;
                self.dead = true;
            }
            return;
        }
        let want = node_tip;
        let t0 = Instant::now();
        loop {
            match self.db.last_known() {
                Ok(Some(x)) if x == want => break,
                Ok(_) => {}
                Err(_) => self.db.close(),
            }
            if let Some(st) = self.daemon_exited() {
                self.observe_chain();
                let _ = st;
                self.emit_plain(json!({"act": "Died", "signal": 0}));
                self.daemon = None;
                self.dead = true;
                return;
            }
            if t0.elapsed() > Duration::from_secs(self.sync_s) {
                // the tower did not record the node's tip as processed: the rest of the scenario is not run
                self.emit_plain(json!({"act": "Hung", "thread": "chain_monitor", "op": "sync_last_known_block", "prop": "C03"}));
                self.dead = true;
                return;
            }
            std::thread::sleep(Duration::from_millis(10));
        }
        self.max_sync_ms = self.max_sync_ms.max(t0.elapsed().as_millis());
        self.observe_chain();
    }

    // ---- requests

    fn sign_class(&self, u: i64, msg: &[u8], other_msg: &[u8], cls: &str) -> (String, i64) {
        let sk = self.sym.user(u).0;
        match cls {
            "valid" => (cryptography::sign(msg, &sk), u),
            "other_msg" => (cryptography::sign(other_msg, &sk), 0),
            "unregistered" => (cryptography::sign(msg, &SecretKey::from_slice(&[0x77; 32]).unwrap()), 0),
            "truncated" => {
                let s = cryptography::sign(msg, &sk);
                (s[..s.len() - 7].to_string(), 0)
            }
            "bitflip" => {
                let s = cryptography::sign(msg, &sk);
                let mut chars: Vec<char> = s.chars().collect();
                let i = chars.len() / 2;
                chars[i] = if chars[i] == 'y' { 'b' } else { 'y' };
                (chars.into_iter().collect(), 0)
            }
            "not_zbase32" => ("!!!!not-zbase32-####".to_string(), 0),
            _ => die(&format!("signature class {cls} is not part of the end-to-end tier")),
        }
    }

    fn make_blob(&mut self, spec: &Value) -> (Vec<u8>, i64, i64) {
        match spec["kind"].as_str().unwrap_or("") {
            "valid" => {
                let d = spec["d"].as_i64().unwrap();
                let p = spec["p"].as_i64().unwrap();
                let dtx = self.tx(d);
                let ptx = self.tx(p);
                let blob = cryptography::encrypt(&ptx, &dtx.compute_txid()).unwrap();
                self.sym.blobs.insert(blob.clone(), (d, p));
                (blob, d, p)
            }
            "trailing" | "truncated" => {
                // (as harness/src/tower.rs) a blob that authenticates under the dispute id but whose plaintext is not exactly
                // one transaction: a serialized penalty followed by extra bytes / cut short
                use bitcoin::hashes::sha256;
                use chacha20poly1305::aead::{Aead, NewAead};
                let d = spec["d"].as_i64().unwrap();
                let p = spec["p"].as_i64().unwrap();
                let dtx = self.tx(d);
                let ptx = self.tx(p);
                let mut plain = consensus::serialize(&ptx);
                if spec["kind"] == "trailing" {
                    plain.extend(vec![0x42u8; spec["extra"].as_u64().unwrap_or(7) as usize]);
                } else {
                    let cut = spec["cut"].as_u64().unwrap_or(3) as usize;
                    plain.truncate(plain.len().saturating_sub(cut));
                }
                let k = sha256::Hash::hash(dtx.compute_txid().as_byte_array());
                let cipher = chacha20poly1305::ChaCha20Poly1305::new(chacha20poly1305::Key::from_slice(k.as_byte_array()));
                let blob = cipher.encrypt(&chacha20poly1305::Nonce::default(), plain.as_ref()).unwrap();
                self.sym.garbled += 1;
                let g = self.sym.garbled;
                self.sym.blobs.insert(blob.clone(), (-g, 0));
                (blob, -g, 0)
            }
            "garbled" => {
                let n = spec["size"].as_u64().unwrap() as usize;
                self.sym.garbled += 1;
                let g = self.sym.garbled;
                let mut blob = vec![0x5au8; n];
                for (i, b) in g.to_le_bytes().iter().enumerate() {
                    if i < n {
                        blob[i] = *b ^ 0xa5;
                    }
                }
                self.sym.blobs.insert(blob.clone(), (-g, 0));
                (blob, -g, 0)
            }
            k => die(&format!("unknown blob kind {k}")),
        }
    }

    /// POST to the public API.  Ok(Ok(body)) on 200; Ok(Err(reply record)) on a documented error; Err(class) when no
    /// (usable) answer came.
    fn post(&mut self, path: &str, body: String) -> Result<Result<Value, Value>, String> {
        let port = match &self.daemon {
            Some(d) => d.api_port,
            None => return Err("http:not_running".into()),
        };
        match http_call(port, "POST", path, Some(&body), Duration::from_secs(60)) {
            Err(why) => Err(format!("http:{why}")),
            Ok((status, raw)) => {
                let v: Value = match serde_json::from_slice(&raw) {
                    Ok(v) => v,
                    Err(_) => return Ok(Err(json!({"code": format!("other:http{status}")}))),
                };
                if status == 200 {
                    return Ok(Ok(v));
                }
                let code = v["error_code"].as_u64().unwrap_or(0);
                let msg = v["error"].as_str().unwrap_or("");
                use teos_common::errors as E;
                Ok(Err(match code as u8 {
                    E::INVALID_SIGNATURE_OR_SUBSCRIPTION_ERROR => {
                        if let Some(rest) = msg.strip_prefix("Your subscription expired at ") {
                            json!({"code": "expired", "expiry": rest.trim().parse::<i64>().unwrap_or(-1)})
                        } else {
                            json!({"code": "auth"})
                        }
                    }
                    E::SERVICE_UNAVAILABLE => json!({"code": "unavailable"}),
                    E::APPOINTMENT_ALREADY_TRIGGERED => json!({"code": "triggered"}),
                    E::APPOINTMENT_NOT_FOUND => json!({"code": "notfound"}),
                    E::REGISTRATION_RESOURCE_EXHAUSTED => json!({"code": "maxslots"}),
                    E::WRONG_FIELD_FORMAT => json!({"code": "invalid"}),
                    other => json!({"code": format!("other:{other}"), "http": status}),
                }))
            }
        }
    }

    fn finish_call(&mut self, mut fields: Value, r: Result<Value, String>) {
        match r {
            Ok(reply) => {
                fields["reply"] = reply;
                { let w = !self.outage; self.emit(fields, "", None, w); }
            }
            Err(cls) => {
                fields["reply"] = json!({"code": "abort"});
                { let w = !self.outage; self.emit(fields, &cls, None, w); }
                if self.daemon_exited().is_some() {
                    self.emit_plain(json!({"act": "Died", "signal": 0}));
                    self.daemon = None;
                }
                self.dead = true;
            }
        }
    }

    fn register(&mut self, u: i64) {
        let pk = self.sym.user(u).1;
        let tower_id = TowerId(self.tower_pk.unwrap());
        let body = serde_json::to_string(&common_msgs::RegisterRequest { user_id: pk.serialize().to_vec() }).unwrap();
        let r = self.post("/register", body).map(|x| match x {
            Err(e) => e,
            Ok(v) => match serde_json::from_value::<common_msgs::RegisterResponse>(v) {
                Err(_) => json!({"code": "other:unparsable"}),
                Ok(m) => {
                    let ok = UserId::from_slice(&m.user_id)
                        .map(|id| {
                            id.0 == pk
                                && RegistrationReceipt::with_signature(id, m.available_slots, m.subscription_start, m.subscription_expiry, m.subscription_signature.clone())
                                    .verify(&tower_id)
                        })
                        .unwrap_or(false);
                    json!({"code": "ok", "slots": m.available_slots, "start": m.subscription_start, "expiry": m.subscription_expiry, "sig_ok": ok})
                }
            },
        });
        self.finish_call(json!({"act": "Register", "u": u}), r);
    }

    fn add(&mut self, u: i64, l: i64, blob_spec: &Value, tsd: u32, sig_cls: &str) {
        let (blob, key, pay) = self.make_blob(blob_spec);
        let ltx = self.tx(l);
        let locator = Locator::new(ltx.compute_txid());
        let appointment = Appointment::new(locator, blob.clone(), tsd);
        let mut other = appointment.to_vec();
        other.push(0x01);
        let (sig, who) = self.sign_class(u, &appointment.to_vec(), &other, sig_cls);
        let ver = self.sym.ver_of(&sig);
        let tower_id = TowerId(self.tower_pk.unwrap());
        let req = common_msgs::AddAppointmentRequest {
            appointment: Some(common_msgs::Appointment { locator: locator.to_vec(), encrypted_blob: blob.clone(), to_self_delay: tsd }),
            signature: sig.clone(),
        };
        let r = self.post("/add_appointment", serde_json::to_string(&req).unwrap()).map(|x| match x {
            Err(e) => e,
            Ok(v) => match serde_json::from_value::<common_msgs::AddAppointmentResponse>(v) {
                Err(_) => json!({"code": "other:unparsable"}),
                Ok(m) => {
                    let ok = m.locator == locator.to_vec() && AppointmentReceipt::with_signature(sig.clone(), m.start_block, m.signature.clone()).verify(&tower_id);
                    json!({"code": "ok", "start": m.start_block, "slots": m.available_slots, "expiry": m.subscription_expiry, "sig_ok": ok, "ver": ver})
                }
            },
        });
        self.finish_call(
            json!({"act": "Add", "who": who, "u": u, "cls": sig_cls, "l": l, "key": key, "pay": pay, "size": blob.len(), "tsd": tsd, "ver": ver}),
            r,
        );
    }

    fn get(&mut self, u: i64, l: i64, sig_cls: &str) {
        let ltx = self.tx(l);
        let locator = Locator::new(ltx.compute_txid());
        let msg = format!("get appointment {locator}");
        let (sig, who) = self.sign_class(u, msg.as_bytes(), b"get subscription info", sig_cls);
        let req = common_msgs::GetAppointmentRequest { locator: locator.to_vec(), signature: sig };
        let posted = self.post("/get_appointment", serde_json::to_string(&req).unwrap());
        let r = posted.map(|x| match x {
            Err(e) => e,
            Ok(v) => match serde_json::from_value::<common_msgs::GetAppointmentResponse>(v) {
                Err(_) => json!({"code": "other:unparsable"}),
                Ok(m) => match m.appointment_data.and_then(|d| d.appointment_data) {
                    Some(common_msgs::appointment_data::AppointmentData::Appointment(a)) => {
                        let (key, pay) = *self.sym.blobs.get(&a.encrypted_blob).unwrap_or(&(-999, -999));
                        let status = if m.status == 1 { "watched" } else { "other" };
                        json!({"code": "ok", "status": status, "key": key, "pay": pay, "size": a.encrypted_blob.len(), "tsd": a.to_self_delay,
                               "bytes_ok": a.locator == locator.to_vec() && key != -999})
                    }
                    Some(common_msgs::appointment_data::AppointmentData::Tracker(t)) => {
                        let d = Txid::from_slice(&t.dispute_txid).map(|x| self.sym.sym_of_txid(&x)).unwrap_or(-1);
                        let p = Txid::from_slice(&t.penalty_txid).map(|x| self.sym.sym_of_txid(&x)).unwrap_or(-1);
                        let raw_ok = consensus::deserialize::<Transaction>(&t.penalty_rawtx)
                            .map(|x| self.sym.sym_of_txid(&x.compute_txid()) == p)
                            .unwrap_or(false);
                        let status = if m.status == 2 { "responded" } else { "other" };
                        json!({"code": "ok", "status": status, "d": d, "p": if raw_ok { p } else { -2 }})
                    }
                    None => json!({"code": "ok", "status": "none"}),
                },
            },
        });
        self.finish_call(json!({"act": "Get", "who": who, "u": u, "cls": sig_cls, "l": l}), r);
    }

    fn sub(&mut self, u: i64, sig_cls: &str) {
        let (sig, who) = self.sign_class(u, b"get subscription info", b"get appointment 00", sig_cls);
        let req = common_msgs::GetSubscriptionInfoRequest { signature: sig };
        let posted = self.post("/get_subscription_info", serde_json::to_string(&req).unwrap());
        let r = posted.map(|x| match x {
            Err(e) => e,
            Ok(v) => match serde_json::from_value::<common_msgs::GetSubscriptionInfoResponse>(v) {
                Err(_) => json!({"code": "other:unparsable"}),
                Ok(m) => {
                    let mut locs: Vec<i64> = m.locators.iter().map(|l| *self.sym.loc_sym.get(l).unwrap_or(&-1)).collect();
                    locs.sort();
                    json!({"code": "ok", "slots": m.available_slots, "expiry": m.subscription_expiry, "locators": locs})
                }
            },
        });
        self.finish_call(json!({"act": "Sub", "who": who, "u": u, "cls": sig_cls}), r);
    }

    // ---- script

    fn op(&mut self, op: &Value) {
        if self.dead {
            return;
        }
        let name = op["op"].as_str().unwrap_or_else(|| die("op without a name"));
        match name {
            "boot" => {
                self.boot();
            }
            "crash" => {
                if self.daemon.is_some() {
                    self.crash();
                }
            }
            "restart" => {
                if self.daemon.is_some() {
                    self.crash();
                }
                if !self.dead && self.boot() {
                    self.sync();
                }
            }
            "poll" => self.sync(),
            "register" | "add" | "get" | "sub" => {
                if self.daemon.is_none() {
                    return;
                }
                // requests issued while the tower is processing blocks are not part of this tier (during a recorded outage
                // the tower cannot catch up: the request is sent as it is)
                if !self.outage {
                    self.sync();
                }
                if self.dead {
                    return;
                }
                let u = op["u"].as_i64().unwrap();
                let sig = op["sig"].as_str().unwrap_or("valid").to_string();
                match name {
                    "register" => self.register(u),
                    "add" => self.add(u, op["l"].as_i64().unwrap(), &op["blob"], op["tsd"].as_u64().unwrap_or(42) as u32, &sig),
                    "get" => self.get(u, op["l"].as_i64().unwrap(), &sig),
                    _ => self.sub(u, &sig),
                }
            }
            "mine" => {
                let mut txs = self.txs(&op["txs"]);
                {
                    let mut node = self.node.lock().unwrap();
                    txs.retain(|t| node.on_chain(&t.compute_txid()).is_none());
                    node.mine(txs);
                }
                if op["poll"].as_bool().unwrap_or(false) {
                    self.sync();
                }
            }
            "ff" => {
                let n = op["n"].as_u64().unwrap();
                let each = op["poll"].as_str().unwrap_or("end");
                if each == "each" {
                    for _ in 0..n {
                        self.node.lock().unwrap().mine(vec![]);
                        self.sync();
                    }
                } else {
                    {
                        let mut node = self.node.lock().unwrap();
                        for _ in 0..n {
                            node.mine(vec![]);
                        }
                    }
                    if each == "end" {
                        self.sync();
                    }
                }
            }
            "reorg" => {
                let depth = op["depth"].as_u64().unwrap() as usize;
                let to_mempool = op["to_mempool"].as_bool().unwrap_or(true);
                let blocks: Vec<Vec<Transaction>> = op["blocks"].as_array().unwrap().iter().map(|b| self.txs(b)).collect();
                // atomic for the tower: it sees the old chain or the whole new one
                let mut node = self.node.lock().unwrap();
                node.disconnect(depth, to_mempool);
                for mut txs in blocks {
                    txs.retain(|t| node.on_chain(&t.compute_txid()).is_none());
                    node.mine(txs);
                }
            }
            "verdict" => {
                let tx = self.tx(op["tx"].as_i64().unwrap());
                let v = match &op["v"] {
                    Value::String(s) if s == "ok" => Verdict::Ok,
                    Value::String(s) if s == "rej" => Verdict::Code(-26),
                    Value::String(s) if s == "res" => Verdict::Code(-27),
                    Value::Number(n) => Verdict::Code(n.as_i64().unwrap() as i32),
                    other => die(&format!("verdict {other} is not part of the end-to-end tier")),
                };
                let times = op["times"].as_u64().unwrap_or(1);
                let mut node = self.node.lock().unwrap();
                let q = node.scripted.entry(tx.compute_txid()).or_default();
                for _ in 0..times {
                    q.push_back(v.clone());
                }
            }
            "reject" => {
                let tx = self.tx(op["tx"].as_i64().unwrap());
                let code = op["code"].as_i64().unwrap_or(-26) as i32;
                self.node.lock().unwrap().policy_reject.insert(tx.compute_txid(), code);
            }
            "unreject" => {
                let tx = self.tx(op["tx"].as_i64().unwrap());
                self.node.lock().unwrap().policy_reject.remove(&tx.compute_txid());
            }
            "mempool_add" => {
                let tx = self.tx(op["tx"].as_i64().unwrap());
                let mut node = self.node.lock().unwrap();
                if !node.in_mempool(&tx.compute_txid()) {
                    node.mempool.push(tx);
                }
            }
            "mempool_drop" => {
                let tx = self.tx(op["tx"].as_i64().unwrap());
                let id = tx.compute_txid();
                self.node.lock().unwrap().mempool.retain(|t| t.compute_txid() != id);
            }
            "node" => {
                let up = op["up"].as_bool().unwrap();
                self.node.lock().unwrap().up = up;
                if !up {
                    self.drops_base = self.drops();
                } else if !self.faults_on() {
                    self.outage = false;
                }
            }
            "rpc_fault" => {
                let on = op["on"].as_bool().unwrap();
                let key = format!("fault:{}", op["method"].as_str().unwrap());
                if on {
                    self.drops_base = self.drops();
                }
                self.server.stats.lock().unwrap().insert(key, if on { 1 } else { 0 });
                if !self.faults_on() {
                    self.outage = false;
                }
            }
            "await_outage" => self.await_outage(),
            other => die(&format!("op {other} is not part of the end-to-end tier")),
        }
    }
}

fn new_node(h0: u32) -> Node {
    let mut n = NodeState::new();
    for _ in 0..h0 {
        n.mine(vec![]);
    }
    Arc::new(Mutex::new(n))
}

fn main() {
    let args: Vec<String> = std::env::args().collect();
    if args.len() < 5 || args[1] != "run" {
        eprintln!("usage: teosd_rig run <script.json> <trace.ndjson> <workdir> [<teosd binary>]");
        std::process::exit(2);
    }
    let teosd = PathBuf::from(
        args.get(5)
            .cloned()
            .or_else(|| std::env::var("VERIF_TEOSD").ok().filter(|s| !s.is_empty()))
            .unwrap_or_else(|| concat!(env!("CARGO_MANIFEST_DIR"), "/target/product/debug/teosd").to_string()),
    );
    if !teosd.is_file() {
        die(&format!("no teosd binary at {}", teosd.display()));
    }
    let script: Value = serde_json::from_str(&std::fs::read_to_string(&args[2]).unwrap_or_else(|e| die(&format!("cannot read the script: {e}"))))
        .unwrap_or_else(|e| die(&format!("bad script: {e}")));
    let wd = std::fs::canonicalize({
        std::fs::create_dir_all(&args[4]).unwrap_or_else(|e| die(&format!("cannot create the work directory: {e}")));
        Path::new(&args[4])
    })
    .unwrap();
    let scenarios = script["scenarios"].as_array().unwrap_or_else(|| die("script without scenarios")).clone();
    let mut tw = Some(TraceWriter::create(&args[3]));
    let mut n_ops = 0usize;
    let mut aborts = 0usize;
    let mut boots = 0usize;
    let mut max_sync_ms = 0u128;
    let mut rpc_calls: BTreeMap<String, usize> = BTreeMap::new();
    let mut per_scenario = Vec::new();
    let t_all = Instant::now();
    for (i, sc) in scenarios.iter().enumerate() {
        let cfg = cfg_of(if sc.get("cfg").is_some() { &sc["cfg"] } else { &script["cfg"] });
        let datadir = wd.join(format!("data_{i}"));
        let _ = std::fs::remove_dir_all(&datadir);
        let node = new_node(cfg.h0);
        let server = RpcServer::start(node.clone());
        let mut e = Exec {
            tw: tw.take().unwrap(),
            sym: Sym::new(),
            node,
            server,
            db: Db::new(datadir.join("regtest").join("teos_db.sql3")),
            cfg,
            teosd: teosd.clone(),
            log_path: wd.join(format!("teosd_{i}.log")),
            datadir,
            daemon: None,
            tower_pk: None,
            tower_tip: None,
            dead: false,
            boots: 0,
            aborts: 0,
            sync_s: env_secs("VERIF_E2E_SYNC_S", 60),
            boot_s: env_secs("VERIF_E2E_BOOT_S", 120),
            outage: false,
            drops_base: 0,
            max_sync_ms: 0,
        };
        let _ = std::fs::remove_file(&e.log_path);
        let t0 = Instant::now();
        e.emit_plain(json!({"act": "Init", "name": sc["name"], "scenario": i}));
        for op in sc["ops"].as_array().unwrap_or_else(|| die("scenario without ops")) {
            e.op(op);
            n_ops += 1;
        }
        // leave the scenario: stop the daemon
        e.daemon = None;
        e.db.close();
        aborts += e.aborts;
        boots += e.boots;
        max_sync_ms = max_sync_ms.max(e.max_sync_ms);
        for (k, v) in e.server.stats.lock().unwrap().iter() {
            *rpc_calls.entry(k.clone()).or_insert(0) += v;
        }
        per_scenario.push(json!({"name": sc["name"], "dead": e.dead, "wall_ms": t0.elapsed().as_millis() as u64, "boots": e.boots}));
        tw = Some(e.tw);
    }
    let mut tw = tw.unwrap();
    tw.emit(&json!({"act": "end"}));
    let n = tw.n;
    tw.flush();
    println!(
        "{}",
        json!({"scenarios": scenarios.len(), "ops": n_ops, "events": n, "aborts": aborts, "boots": boots, "node_rpc_calls": rpc_calls,
               "max_sync_ms": max_sync_ms as u64, "wall_ms": t_all.elapsed().as_millis() as u64, "per_scenario": per_scenario,
               "teosd": teosd.to_string_lossy()})
    );
}
