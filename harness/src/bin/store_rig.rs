//! C18: binds spec/ClientStore.tla (through the labelled state graph printed by MC_ClientStore) to the real
//! `watchtower_plugin::wt_client::WTClient` + `dbm::DBM` over an on-disk SQLite file.
//!
//! The graph file (written by lib/c18.py from TLC's EDGE lines) has one JSON object per line:
//!   {"init": S}                                   the initial abstract store
//!   {"s": i, "state": S}                          abstract store number i (db rows + memory summaries, see ClientStore.tla)
//!   {"e": [i, j], "op": OP, "dev": ""|"S16"}      TLC: in store i operation OP may lead to store j (dev: only by that deviation)
//! Everything that is expected comes from that file (i.e. from the specification); this program only concretises
//! operations, projects the real state to the abstract shape and looks the result up among the allowed successors.
//!
//!   store_rig walk <graph> <workdir> <maxlen>   covers every (store, operation) pair the implementation can reach: executes
//!                                               the operation on a real client that was driven to that store, compares, and
//!                                               continues from the successor the implementation chose
//!   store_rig seqs <graph> <workdir> <k> <all|moving>   every operation sequence of length <= k from the empty store, each
//!                                               executed on a fresh data directory (moving: operations that the specification
//!                                               says leave the store unchanged are not extended)
//!   store_rig path <graph> <workdir> <ops.json> one given sequence (replay of a violation)
//!   store_rig random <towers> <locators> <ops> <seed> <workdir> <out.ndjson>   implementation -> specification: a long random
//!                                               history of plugin-performable calls (chosen from what the real state allows) is
//!                                               executed and recorded (operation, answer, projected state, read paths) for
//!                                               spec/Trace_ClientStore.tla, which judges every step
//!
//! After every step it compares with the specification's successor store:
//!   (A) memory: the JSON `listtowers` prints (`json!(state.towers)`), and every row of every table read through a second,
//!       read-only SQLite connection (concrete cell values - signatures, blobs, ids - are checked too);
//!   (B) `DBM::load_towers()` with the summaries of the specification's Reload successor;
//!   (C) what `gettowerinfo` prints (`load_tower_info(t).with_status(get_tower_status(t))`), `getregistrationreceipt`,
//!       `getappointmentreceipt` for every tower x locator;
//! and a `reload` operation drops the client and builds a new one on the same directory (then: (A)-(C) again, the messages sent to
//! the retry manager, the client key).

use std::collections::{BTreeMap, HashMap, VecDeque};
use std::io::{BufRead, BufReader};
use std::panic::{catch_unwind, AssertUnwindSafe};
use std::path::PathBuf;
use std::sync::atomic::{AtomicBool, Ordering};

use bitcoin::secp256k1::{PublicKey, Secp256k1, SecretKey};
use rand::rngs::StdRng;
use rand::{Rng, SeedableRng};
use rusqlite::{Connection, OpenFlags};
use serde_json::{json, Value};
use tokio::sync::mpsc::{unbounded_channel, UnboundedReceiver};

use teos_common::appointment::{Appointment, Locator};
use teos_common::receipts::{AppointmentReceipt, RegistrationReceipt};
use teos_common::{TowerId, UserId};
use watchtower_plugin::wt_client::{RevocationData, WTClient};
use watchtower_plugin::{MisbehaviorProof, SubscriptionError, TowerStatus};

use verif_harness::trace::TraceWriter;

/// true while code under test runs: its panics are data and stay quiet; the rig's own panics are printed
static QUIET: AtomicBool = AtomicBool::new(false);

// ---------------------------------------------------------------------------------------------------------------------
// canonical form of abstract values (every JSON array in a store or an operation is a set)

fn canon(v: &Value) -> String {
    match v {
        Value::Object(m) => {
            let mut ks: Vec<String> = m
                .iter()
                .map(|(k, v)| format!("{}:{}", serde_json::to_string(k).unwrap(), canon(v)))
                .collect();
            ks.sort();
            format!("{{{}}}", ks.join(","))
        }
        Value::Array(a) => {
            let mut es: Vec<String> = a.iter().map(canon).collect();
            es.sort();
            format!("[{}]", es.join(","))
        }
        _ => v.to_string(),
    }
}

/// C18 talks about the registration receipt that counts (the one expiring last: what is reported and reloaded) and about
/// abandon removing all of them; whether superseded receipts of a tower that is still known are kept is left open. Stores
/// are compared modulo those rows.
fn norm(st: &Value) -> Value {
    let mut out = st.clone();
    let known: Vec<Value> = st["db"]["towers"].as_array().map(|a| a.iter().map(|r| r["t"].clone()).collect()).unwrap_or_default();
    let regs: Vec<Value> = st["db"]["regs"].as_array().cloned().unwrap_or_default();
    let kept: Vec<Value> = regs
        .iter()
        .filter(|r| {
            !known.contains(&r["t"])
                || regs.iter().all(|q| q["t"] != r["t"] || q["expiry"].as_i64().unwrap_or(0) <= r["expiry"].as_i64().unwrap_or(0))
        })
        .cloned()
        .collect();
    out["db"]["regs"] = Value::Array(kept);
    out
}

fn skey(st: &Value) -> String {
    canon(&norm(st))
}

// ---------------------------------------------------------------------------------------------------------------------
// the graph

struct OpEdge {
    op: Value,
    succs: Vec<(usize, String)>,
}

struct Graph {
    states: Vec<Value>,
    /// skey of every state
    skeys: Vec<String>,
    out: Vec<Vec<OpEdge>>,
    init: usize,
    /// index in out[s] of the reload operation
    reload_of: Vec<Option<usize>>,
}

impl Graph {
    fn load(path: &str) -> Graph {
        let f = BufReader::new(std::fs::File::open(path).expect("cannot open graph file"));
        let mut states: Vec<Value> = Vec::new();
        let mut init_state: Option<Value> = None;
        let mut raw_edges: Vec<(usize, usize, Value, String)> = Vec::new();
        for line in f.lines() {
            let line = line.unwrap();
            if line.trim().is_empty() {
                continue;
            }
            let v: Value = serde_json::from_str(&line).expect("bad graph line");
            if let Some(i) = v.get("init") {
                init_state = Some(i.clone());
            } else if let Some(i) = v.get("s") {
                let i = i.as_u64().unwrap() as usize;
                if states.len() <= i {
                    states.resize(i + 1, Value::Null);
                }
                states[i] = v["state"].clone();
            } else if let Some(e) = v.get("e") {
                raw_edges.push((
                    e[0].as_u64().unwrap() as usize,
                    e[1].as_u64().unwrap() as usize,
                    v["op"].clone(),
                    v["dev"].as_str().unwrap_or("").to_owned(),
                ));
            }
        }
        let mut keys = HashMap::new();
        for (i, s) in states.iter().enumerate() {
            assert!(!s.is_null(), "state {i} missing in graph file");
            keys.insert(canon(s), i);
        }
        let init = *keys
            .get(&canon(&init_state.expect("no init line")))
            .expect("initial state is not a state of the graph");
        let mut out: Vec<Vec<OpEdge>> = (0..states.len()).map(|_| Vec::new()).collect();
        let mut opidx: Vec<HashMap<String, usize>> = (0..states.len()).map(|_| HashMap::new()).collect();
        for (f, t, op, dev) in raw_edges {
            let k = canon(&op);
            let i = match opidx[f].get(&k) {
                Some(i) => *i,
                None => {
                    out[f].push(OpEdge { op, succs: Vec::new() });
                    opidx[f].insert(k, out[f].len() - 1);
                    out[f].len() - 1
                }
            };
            if !out[f][i].succs.iter().any(|(s, _)| *s == t) {
                out[f][i].succs.push((t, dev));
            }
        }
        let reload_of = out
            .iter()
            .map(|ops| ops.iter().position(|e| e.op["k"] == "reload"))
            .collect();
        let skeys = states.iter().map(skey).collect();
        Graph { states, skeys, out, init, reload_of }
    }

    fn reload_succ(&self, s: usize) -> Option<usize> {
        self.reload_of[s].map(|i| self.out[s][i].succs[0].0)
    }
}

// ---------------------------------------------------------------------------------------------------------------------
// concretisation of the model's names

struct World {
    secp: Secp256k1<bitcoin::secp256k1::All>,
    tower_by_bytes: HashMap<Vec<u8>, String>,
    tower_by_hex: HashMap<String, String>,
    bad_by_bytes: HashMap<Vec<u8>, String>,
    loc_by_bytes: HashMap<Vec<u8>, String>,
    loc_by_hex: HashMap<String, String>,
    rcpt_cache: HashMap<(String, String, bool), AppointmentReceipt>,
}

fn num(name: &str) -> u8 {
    name[1..].parse::<u8>().expect("names are t<N> / l<N>")
}

impl World {
    fn new() -> World {
        let mut w = World {
            secp: Secp256k1::new(),
            tower_by_bytes: HashMap::new(),
            tower_by_hex: HashMap::new(),
            bad_by_bytes: HashMap::new(),
            loc_by_bytes: HashMap::new(),
            loc_by_hex: HashMap::new(),
            rcpt_cache: HashMap::new(),
        };
        for n in 1..=9u8 {
            let t = format!("t{n}");
            let id = w.tower_id(&t);
            w.tower_by_bytes.insert(id.to_vec(), t.clone());
            w.tower_by_hex
                .insert(serde_json::to_value(id).unwrap().as_str().unwrap().to_owned(), t.clone());
            let bad = w.bad_id(&t);
            w.bad_by_bytes.insert(bad.to_vec(), t.clone());
        }
        for n in 1..=60u8 {
            let l = format!("l{n}");
            let loc = w.locator(&l);
            w.loc_by_bytes.insert(loc.to_vec(), l.clone());
            w.loc_by_hex.insert(hex::encode(loc.to_vec()), l);
        }
        w
    }
    fn tower_sk(&self, t: &str) -> SecretKey {
        SecretKey::from_slice(&[num(t); 32]).unwrap()
    }
    fn bad_sk(&self, t: &str) -> SecretKey {
        SecretKey::from_slice(&[0x40 + num(t); 32]).unwrap()
    }
    fn tower_id(&self, t: &str) -> TowerId {
        UserId(PublicKey::from_secret_key(&self.secp, &self.tower_sk(t)))
    }
    /// the key a misbehaving tower signed with instead of its own
    fn bad_id(&self, t: &str) -> TowerId {
        UserId(PublicKey::from_secret_key(&self.secp, &self.bad_sk(t)))
    }
    fn locator(&self, l: &str) -> Locator {
        Locator::from_slice(&[0xA0 + num(l); 16]).unwrap()
    }
    fn appointment(&self, l: &str) -> Appointment {
        let n = num(l);
        Appointment::new(self.locator(l), vec![n; 40 + n as usize], 42 + n as u32)
    }
    fn addr(port: u64) -> String {
        format!("http://tower.example:{port}")
    }
    fn port_of(addr: &str) -> Value {
        match addr.strip_prefix("http://tower.example:").and_then(|p| p.parse::<u64>().ok()) {
            Some(p) => json!(p),
            None => json!(format!("?{addr}")),
        }
    }
    fn receipt(&mut self, t: &str, l: &str, ok: bool) -> AppointmentReceipt {
        let key = (t.to_owned(), l.to_owned(), ok);
        if let Some(r) = self.rcpt_cache.get(&key) {
            return r.clone();
        }
        let mut r = AppointmentReceipt::new(format!("usig-{t}-{l}"), 500 + 10 * num(t) as u32 + num(l) as u32);
        r.sign(&if ok { self.tower_sk(t) } else { self.bad_sk(t) });
        self.rcpt_cache.insert(key, r.clone());
        r
    }
    fn proof(&mut self, t: &str, l: &str) -> MisbehaviorProof {
        MisbehaviorProof::new(self.locator(l), self.receipt(t, l, false), self.bad_id(t))
    }
    fn tname(&self, bytes: &[u8]) -> String {
        self.tower_by_bytes
            .get(bytes)
            .cloned()
            .unwrap_or_else(|| format!("?{}", hex::encode(bytes)))
    }
    fn lname(&self, bytes: &[u8]) -> String {
        self.loc_by_bytes
            .get(bytes)
            .cloned()
            .unwrap_or_else(|| format!("?{}", hex::encode(bytes)))
    }
    fn lname_hex(&self, h: &str) -> String {
        self.loc_by_hex.get(h).cloned().unwrap_or_else(|| format!("?{h}"))
    }
}

fn status_name(s: TowerStatus) -> &'static str {
    match s {
        TowerStatus::Reachable => "reachable",
        TowerStatus::TemporaryUnreachable => "temporary_unreachable",
        TowerStatus::Unreachable => "unreachable",
        TowerStatus::SubscriptionError => "subscription_error",
        TowerStatus::Misbehaving => "misbehaving",
    }
}

// ---------------------------------------------------------------------------------------------------------------------
// the implementation under test

struct Impl {
    dir: PathBuf,
    client: Option<WTClient>,
    rx: UnboundedReceiver<(TowerId, RevocationData)>,
    ro: Connection,
    rt: tokio::runtime::Runtime,
    user_id: UserId,
    /// signatures of the registration receipts handed to the client: (tower, expiry) -> signature
    reg_sigs: HashMap<(String, u64), String>,
    fast: bool,
}

impl Impl {
    fn fresh(dir: PathBuf, fast: bool) -> Impl {
        let _ = std::fs::remove_dir_all(&dir);
        std::fs::create_dir_all(&dir).expect("cannot create work dir");
        let rt = tokio::runtime::Builder::new_current_thread().enable_all().build().unwrap();
        let (tx, rx) = unbounded_channel();
        let client = rt.block_on(WTClient::new(dir.clone(), tx));
        let ro = Connection::open_with_flags(dir.join("watchtowers_db.sql3"), OpenFlags::SQLITE_OPEN_READ_ONLY)
            .expect("cannot open the read-only connection");
        let user_id = client.user_id;
        let imp = Impl { dir, client: Some(client), rx, ro, rt, user_id, reg_sigs: HashMap::new(), fast };
        imp.tune();
        imp
    }

    /// Durability against power loss is not part of C18: skip fsync on the client's own connection (nothing else is changed).
    fn tune(&self) {
        if self.fast {
            use teos_common::dbm::DatabaseConnection;
            let c = self.client.as_ref().unwrap().dbm.get_connection();
            let _ = c.execute_batch("PRAGMA synchronous=OFF;");
        }
    }

    fn client(&mut self) -> &mut WTClient {
        self.client.as_mut().unwrap()
    }

    /// drop the client, build a new one on the same directory; returns the messages it sent to the retry manager
    fn reload(&mut self) -> Vec<(TowerId, RevocationData)> {
        self.client = None;
        while self.rx.try_recv().is_ok() {}
        let (tx, rx) = unbounded_channel();
        self.rx = rx;
        let client = self.rt.block_on(WTClient::new(self.dir.clone(), tx));
        self.client = Some(client);
        self.tune();
        let mut msgs = Vec::new();
        while let Ok(m) = self.rx.try_recv() {
            msgs.push(m);
        }
        msgs
    }
}

fn s(v: &Value, k: &str) -> String {
    v[k].as_str().unwrap_or_else(|| panic!("op field {k} missing in {v}")).to_owned()
}
fn n(v: &Value, k: &str) -> u64 {
    v[k].as_u64().unwrap_or_else(|| panic!("op field {k} missing in {v}"))
}

/// Executes one operation the way main.rs / retrier.rs do. Returns what the call answered (Null when it has no result) and
/// extra observations of a reload.
fn apply(imp: &mut Impl, w: &mut World, op: &Value) -> Value {
    let k = s(op, "k");
    match k.as_str() {
        "register" => {
            let t = s(op, "t");
            let tid = w.tower_id(&t);
            let mut r = RegistrationReceipt::new(imp.user_id, n(op, "slots") as u32, n(op, "start") as u32, n(op, "expiry") as u32);
            r.sign(&w.tower_sk(&t));
            let res = imp.client().add_update_tower(tid, &World::addr(n(op, "port")), &r);
            match res {
                Ok(()) => {
                    imp.reg_sigs.insert((t, n(op, "expiry")), r.signature().unwrap());
                    json!("ok")
                }
                Err(SubscriptionError::Expiry) => json!("expiry"),
                Err(SubscriptionError::Slots) => json!("slots"),
            }
        }
        "receipt" => {
            let (t, l) = (s(op, "t"), s(op, "l"));
            let r = w.receipt(&t, &l, true);
            imp.client().add_appointment_receipt(w.tower_id(&t), w.locator(&l), n(op, "slots") as u32, &r);
            Value::Null
        }
        "invalid" => {
            let (t, l) = (s(op, "t"), s(op, "l"));
            imp.client().add_invalid_appointment(w.tower_id(&t), &w.appointment(&l));
            Value::Null
        }
        "misbehaving" | "p2m" => {
            let (t, l) = (s(op, "t"), s(op, "l"));
            let p = w.proof(&t, &l);
            imp.client().flag_misbehaving_tower(w.tower_id(&t), p);
            Value::Null
        }
        "pending" => {
            let (t, l) = (s(op, "t"), s(op, "l"));
            let tid = w.tower_id(&t);
            match s(op, "why").as_str() {
                "conn" => imp.client().set_tower_status(tid, TowerStatus::TemporaryUnreachable),
                "sub" => imp.client().set_tower_status(tid, TowerStatus::SubscriptionError),
                _ => {}
            }
            imp.client().add_pending_appointment(tid, &w.appointment(&l));
            Value::Null
        }
        "p2a" => {
            let (t, l) = (s(op, "t"), s(op, "l"));
            let tid = w.tower_id(&t);
            let r = w.receipt(&t, &l, true);
            let c = imp.client();
            c.add_appointment_receipt(tid, w.locator(&l), n(op, "slots") as u32, &r);
            c.remove_pending_appointment(tid, w.locator(&l));
            if op["done"].as_bool().unwrap() {
                c.set_tower_status(tid, TowerStatus::Reachable);
            }
            Value::Null
        }
        "p2i" => {
            let (t, l) = (s(op, "t"), s(op, "l"));
            let tid = w.tower_id(&t);
            let c = imp.client();
            c.add_invalid_appointment(tid, &w.appointment(&l));
            c.remove_pending_appointment(tid, w.locator(&l));
            if op["done"].as_bool().unwrap() {
                c.set_tower_status(tid, TowerStatus::Reachable);
            }
            Value::Null
        }
        "giveup" => {
            let tid = w.tower_id(&s(op, "t"));
            imp.client().set_tower_status(tid, TowerStatus::Unreachable);
            Value::Null
        }
        "retry" => {
            let tid = w.tower_id(&s(op, "t"));
            imp.client().set_tower_status(tid, TowerStatus::TemporaryUnreachable);
            Value::Null
        }
        "abandon" => {
            let tid = w.tower_id(&s(op, "t"));
            // main.rs::abandon_tower
            if imp.client().towers.contains_key(&tid) {
                match imp.client().remove_tower(tid) {
                    Ok(()) => json!("ok"),
                    Err(e) => json!(format!("error: {e:?}")),
                }
            } else {
                json!("unknown")
            }
        }
        "ghost" => {
            let (t, l) = (s(op, "t"), s(op, "l"));
            let tid = w.tower_id(&t);
            match s(op, "call").as_str() {
                "receipt" => {
                    let r = w.receipt(&t, &l, true);
                    imp.client().add_appointment_receipt(tid, w.locator(&l), 1, &r)
                }
                "pending" => imp.client().add_pending_appointment(tid, &w.appointment(&l)),
                "invalid" => imp.client().add_invalid_appointment(tid, &w.appointment(&l)),
                "misbehaving" => {
                    let p = w.proof(&t, &l);
                    imp.client().flag_misbehaving_tower(tid, p)
                }
                "remove_pending" => imp.client().remove_pending_appointment(tid, w.locator(&l)),
                c => panic!("unknown ghost call {c}"),
            }
            Value::Null
        }
        "reload" => {
            let msgs = imp.reload();
            let mut stale = Vec::new();
            for (tid, data) in msgs {
                match data {
                    RevocationData::Stale(hs) => stale.push(json!({"t": w.tname(&tid.to_vec()),
                        "pending": hs.iter().map(|l| w.lname(&l.to_vec())).collect::<Vec<_>>()})),
                    other => stale.push(json!({"t": w.tname(&tid.to_vec()), "unexpected": format!("{other:?}")})),
                }
            }
            let now = imp.client().user_id;
            json!({"stale": stale, "same_key": now == imp.user_id})
        }
        other => panic!("unknown operation {other}"),
    }
}

// ---------------------------------------------------------------------------------------------------------------------
// projection of the real state to the abstract shape

fn summary_to_abstract(w: &World, t: String, j: &Value) -> Value {
    let set = |k: &str| -> Vec<Value> {
        j[k].as_array()
            .map(|a| a.iter().map(|x| json!(w.lname_hex(x.as_str().unwrap_or("?")))).collect())
            .unwrap_or_else(|| vec![json!("?missing")])
    };
    json!({"t": t, "port": World::port_of(j["net_addr"].as_str().unwrap_or("?")), "slots": j["available_slots"],
           "start": j["subscription_start"], "expiry": j["subscription_expiry"], "status": j["status"],
           "pending": set("pending_appointments"), "invalid": set("invalid_appointments")})
}

/// the summaries as `listtowers` prints them
fn mem_abstract(w: &World, towers: &HashMap<TowerId, watchtower_plugin::TowerSummary>) -> Value {
    let j = serde_json::to_value(towers).expect("listtowers view does not serialise");
    let mut out = Vec::new();
    for (k, v) in j.as_object().unwrap() {
        let t = w.tower_by_hex.get(k).cloned().unwrap_or_else(|| format!("?{k}"));
        out.push(summary_to_abstract(w, t, v));
    }
    Value::Array(out)
}

/// Raw rows of every table -> abstract db; `bad` collects concrete cells that are not what the rig handed to the client.
fn db_abstract(imp: &Impl, w: &mut World, bad: &mut Vec<String>) -> Value {
    let c = &imp.ro;
    let mut towers = Vec::new();
    let mut regs = Vec::new();
    let mut rcpts = Vec::new();
    let mut pend = Vec::new();
    let mut inv = Vec::new();
    let mut bodies = Vec::new();
    let mut proofs = Vec::new();
    {
        let mut st = c.prepare("SELECT tower_id, net_addr, available_slots FROM towers").unwrap();
        let mut rows = st.query([]).unwrap();
        while let Some(r) = rows.next().unwrap() {
            let id: Vec<u8> = r.get(0).unwrap();
            let addr: String = r.get(1).unwrap();
            let slots: i64 = r.get(2).unwrap();
            towers.push(json!({"t": w.tname(&id), "port": World::port_of(&addr), "slots": slots}));
        }
    }
    {
        let mut st = c
            .prepare("SELECT tower_id, available_slots, subscription_start, subscription_expiry, signature FROM registration_receipts")
            .unwrap();
        let mut rows = st.query([]).unwrap();
        while let Some(r) = rows.next().unwrap() {
            let id: Vec<u8> = r.get(0).unwrap();
            let slots: i64 = r.get(1).unwrap();
            let start: i64 = r.get(2).unwrap();
            let expiry: i64 = r.get(3).unwrap();
            let sig: Option<String> = r.get(4).unwrap();
            let t = w.tname(&id);
            if imp.reg_sigs.get(&(t.clone(), expiry as u64)) != sig.as_ref() {
                bad.push(format!("registration_receipts.signature of ({t},{expiry})"));
            }
            regs.push(json!({"t": t, "slots": slots, "start": start, "expiry": expiry}));
        }
    }
    {
        let mut st = c
            .prepare("SELECT locator, tower_id, start_block, user_signature, tower_signature FROM appointment_receipts")
            .unwrap();
        let mut rows = st.query([]).unwrap();
        while let Some(r) = rows.next().unwrap() {
            let loc: Vec<u8> = r.get(0).unwrap();
            let id: Vec<u8> = r.get(1).unwrap();
            let start: i64 = r.get(2).unwrap();
            let usig: Option<String> = r.get(3).unwrap();
            let tsig: Option<String> = r.get(4).unwrap();
            let (t, l) = (w.tname(&id), w.lname(&loc));
            let ok = if t.starts_with('?') || l.starts_with('?') {
                json!("?")
            } else {
                let good = w.receipt(&t, &l, true);
                let evil = w.receipt(&t, &l, false);
                if usig.as_deref() != Some(good.user_signature()) || start != good.start_block() as i64 {
                    bad.push(format!("appointment_receipts.(start_block|user_signature) of ({t},{l})"));
                }
                if tsig == good.signature() {
                    json!(true)
                } else if tsig == evil.signature() {
                    json!(false)
                } else {
                    bad.push(format!("appointment_receipts.tower_signature of ({t},{l})"));
                    json!("?")
                }
            };
            rcpts.push(json!({"t": t, "l": l, "ok": ok}));
        }
    }
    for (table, out) in [("pending_appointments", &mut pend), ("invalid_appointments", &mut inv)] {
        let mut st = c.prepare(&format!("SELECT locator, tower_id FROM {table}")).unwrap();
        let mut rows = st.query([]).unwrap();
        while let Some(r) = rows.next().unwrap() {
            let loc: Vec<u8> = r.get(0).unwrap();
            let id: Vec<u8> = r.get(1).unwrap();
            out.push(json!({"t": w.tname(&id), "l": w.lname(&loc)}));
        }
    }
    {
        let mut st = c.prepare("SELECT locator, encrypted_blob, to_self_delay FROM appointments").unwrap();
        let mut rows = st.query([]).unwrap();
        while let Some(r) = rows.next().unwrap() {
            let loc: Vec<u8> = r.get(0).unwrap();
            let blob: Option<Vec<u8>> = r.get(1).unwrap();
            let tsd: Option<i64> = r.get(2).unwrap();
            let l = w.lname(&loc);
            if !l.starts_with('?') {
                let a = w.appointment(&l);
                if blob.as_ref() != Some(&a.encrypted_blob) || tsd != Some(a.to_self_delay as i64) {
                    bad.push(format!("appointments.(encrypted_blob|to_self_delay) of {l}"));
                }
            }
            bodies.push(json!(l));
        }
    }
    {
        let mut st = c.prepare("SELECT tower_id, locator, recovered_id FROM misbehaving_proofs").unwrap();
        let mut rows = st.query([]).unwrap();
        while let Some(r) = rows.next().unwrap() {
            let id: Vec<u8> = r.get(0).unwrap();
            let loc: Vec<u8> = r.get(1).unwrap();
            let rec: Vec<u8> = r.get(2).unwrap();
            let t = w.tname(&id);
            if w.bad_by_bytes.get(&rec) != Some(&t) {
                bad.push(format!("misbehaving_proofs.recovered_id of {t}"));
            }
            proofs.push(json!({"t": t, "l": w.lname(&loc)}));
        }
    }
    let nkeys: i64 = c.query_row("SELECT COUNT(*) FROM keys", [], |r| r.get(0)).unwrap();
    if nkeys != 1 {
        bad.push(format!("keys has {nkeys} rows"));
    }
    json!({"towers": towers, "regs": regs, "rcpts": rcpts, "pend": pend, "inv": inv, "bodies": bodies, "proofs": proofs})
}

fn observe(imp: &Impl, w: &mut World, bad: &mut Vec<String>) -> Value {
    let db = db_abstract(imp, w, bad);
    let mem = mem_abstract(w, &imp.client.as_ref().unwrap().towers);
    json!({"db": db, "mem": mem})
}

fn find<'a>(set: &'a Value, pred: impl Fn(&Value) -> bool) -> Vec<&'a Value> {
    set.as_array().map(|a| a.iter().filter(|x| pred(x)).collect()).unwrap_or_default()
}

/// (B) and (C): the read paths of the store against the specification's store `exp` and its Reload successor `rel`.
/// Returns the names of the views that disagree; `ncmp` counts comparisons.
fn check_views(imp: &mut Impl, w: &mut World, exp: &Value, rel: Option<&Value>, towers: &[String], locators: &[String],
               ncmp: &mut u64) -> Vec<String> {
    let mut wrong = Vec::new();
    let client = imp.client.as_ref().unwrap();
    // (B) load_towers
    if let Some(rel) = rel {
        let lt = client.dbm.load_towers();
        *ncmp += 1;
        if canon(&mem_abstract(w, &lt)) != canon(&rel["mem"]) {
            wrong.push("view.load_towers".to_owned());
        }
    }
    for t in towers {
        let tid = w.tower_id(t);
        let known = !find(&exp["db"]["towers"], |x| x["t"] == t.as_str()).is_empty();
        // (C) gettowerinfo
        let info = client.load_tower_info(tid);
        *ncmp += 1;
        match (&info, known) {
            (None, false) => {}
            (Some(_), false) | (None, true) => wrong.push("view.tower_info.presence".to_owned()),
            (Some(info), true) => {
                let status = client.get_tower_status(&tid);
                let memrec = find(&exp["mem"], |x| x["t"] == t.as_str());
                if status.is_none() || memrec.len() != 1 {
                    wrong.push("view.tower_info.status".to_owned());
                } else {
                    let j = serde_json::to_value(info.clone().with_status(status.unwrap())).expect("gettowerinfo view does not serialise");
                    // status: the one in memory
                    if j["status"] != memrec[0]["status"] {
                        wrong.push("view.tower_info.status".to_owned());
                    }
                    // numbers, address, pending / invalid sets: those of the Reload successor (what the disk says)
                    if let Some(rel) = rel {
                        let r = find(&rel["mem"], |x| x["t"] == t.as_str());
                        let keys = |k: &str| -> Value {
                            Value::Array(j[k].as_object().map(|m| m.keys().map(|h| json!(w.lname_hex(h))).collect()).unwrap_or_default())
                        };
                        let got = json!({"t": t, "port": World::port_of(j["net_addr"].as_str().unwrap_or("?")),
                            "slots": j["available_slots"], "start": j["subscription_start"], "expiry": j["subscription_expiry"],
                            "pending": keys("pending_appointments"), "invalid": keys("invalid_appointments")});
                        let mut want = r.first().map(|x| (*x).clone()).unwrap_or(Value::Null);
                        if let Some(m) = want.as_object_mut() {
                            m.remove("status");
                        }
                        if canon(&got) != canon(&want) {
                            wrong.push("view.tower_info.summary".to_owned());
                        }
                        // the status the record itself carries is the derived one
                        if json!(status_name(info.status)) != r.first().map(|x| x["status"].clone()).unwrap_or(Value::Null) {
                            wrong.push("view.tower_info.derived_status".to_owned());
                        }
                    }
                    // bodies of the pending / invalid appointments
                    for k in ["pending_appointments", "invalid_appointments"] {
                        if let Some(m) = j[k].as_object() {
                            for (h, b) in m {
                                let l = w.lname_hex(h);
                                if l.starts_with('?') {
                                    continue;
                                }
                                let a = w.appointment(&l);
                                if b["encrypted_blob"] != json!(hex::encode(&a.encrypted_blob)) || b["to_self_delay"] != json!(a.to_self_delay) {
                                    wrong.push("view.tower_info.bodies".to_owned());
                                }
                            }
                        }
                    }
                    // accepted appointments: locator -> tower signature
                    let mut want_rc: BTreeMap<String, Value> = BTreeMap::new();
                    for r in find(&exp["db"]["rcpts"], |x| x["t"] == t.as_str()) {
                        let l = r["l"].as_str().unwrap().to_owned();
                        let rc = w.receipt(t, &l, r["ok"].as_bool().unwrap());
                        want_rc.insert(hex::encode(w.locator(&l).to_vec()), json!(rc.signature()));
                    }
                    let got_rc: BTreeMap<String, Value> = j["appointments"].as_object().map(|m| m.iter().map(|(k, v)| (k.clone(), v.clone())).collect()).unwrap_or_default();
                    if got_rc != want_rc {
                        wrong.push("view.tower_info.appointments".to_owned());
                    }
                    // the proof
                    let pr = find(&exp["db"]["proofs"], |x| x["t"] == t.as_str());
                    let want_p = match pr.first() {
                        Some(p) => serde_json::to_value(w.proof(t, p["l"].as_str().unwrap())).unwrap(),
                        None => Value::Null,
                    };
                    if j.get("misbehaving_proof").cloned().unwrap_or(Value::Null) != want_p {
                        wrong.push("view.tower_info.proof".to_owned());
                    }
                }
            }
        }
        // getregistrationreceipt: the receipt expiring last, with a signature of the tower
        let rr = client.get_registration_receipt(tid);
        *ncmp += 1;
        let regs = find(&exp["db"]["regs"], |x| x["t"] == t.as_str());
        let last = regs.iter().max_by_key(|r| r["expiry"].as_u64().unwrap());
        match (rr, last) {
            (None, None) => {}
            (Some(r), Some(l)) => {
                if json!(r.available_slots()) != l["slots"] || json!(r.subscription_start()) != l["start"]
                    || json!(r.subscription_expiry()) != l["expiry"] || !r.verify(&tid) {
                    wrong.push("view.registration_receipt".to_owned());
                }
            }
            _ => wrong.push("view.registration_receipt.presence".to_owned()),
        }
        // getappointmentreceipt
        for l in locators {
            let got = client.get_appointment_receipt(tid, w.locator(l));
            *ncmp += 1;
            let want = find(&exp["db"]["rcpts"], |x| x["t"] == t.as_str() && x["l"] == l.as_str());
            match (got, want.first()) {
                (None, None) => {}
                (Some(g), Some(r)) => {
                    if g != w.receipt(t, l, r["ok"].as_bool().unwrap()) {
                        wrong.push("view.appointment_receipt".to_owned());
                    }
                }
                _ => wrong.push("view.appointment_receipt.presence".to_owned()),
            }
        }
    }
    wrong.sort();
    wrong.dedup();
    wrong
}

/// names of the top-level components in which two abstract stores differ
fn diff_components(a: &Value, b: &Value) -> Vec<String> {
    let (a, b) = (&norm(a), &norm(b));
    let mut d = Vec::new();
    for k in ["towers", "regs", "rcpts", "pend", "inv", "bodies", "proofs"] {
        if canon(&a["db"][k]) != canon(&b["db"][k]) {
            d.push(format!("db.{k}"));
        }
    }
    if canon(&a["mem"]) != canon(&b["mem"]) {
        d.push("mem".to_owned());
    }
    d
}

// ---------------------------------------------------------------------------------------------------------------------
// one step = operation + all comparisons

struct Runner {
    g: Graph,
    w: World,
    work: PathBuf,
    fast: bool,
    towers: Vec<String>,
    locators: Vec<String>,
    nrun: u64,
    steps: u64,
    comparisons: u64,
    behaviours: u64,
    mismatches: Vec<Value>,
    nmismatch: u64,
    dev_hits: BTreeMap<String, u64>,
    dev_samples: Vec<Value>,
    kinds: BTreeMap<String, u64>,
    /// operations executed since the last fresh start
    trail: Vec<Value>,
}

enum StepResult {
    /// the implementation is in this store of the graph (and every view agreed, or disagreements were recorded)
    At(usize),
    /// the implementation left the graph (or panicked): the behaviour cannot be continued
    Lost,
}

impl Runner {
    fn new(g: Graph, work: PathBuf, fast: bool) -> Runner {
        let mut towers: Vec<String> = Vec::new();
        let mut locators: Vec<String> = Vec::new();
        for ops in &g.out {
            for e in ops {
                if let Some(t) = e.op["t"].as_str() {
                    if !towers.iter().any(|x| x == t) {
                        towers.push(t.to_owned());
                    }
                }
                if let Some(l) = e.op["l"].as_str() {
                    if !locators.iter().any(|x| x == l) {
                        locators.push(l.to_owned());
                    }
                }
            }
        }
        towers.sort();
        locators.sort();
        Runner { g, w: World::new(), work, fast, towers, locators, nrun: 0, steps: 0, comparisons: 0, behaviours: 0,
                 mismatches: Vec::new(), nmismatch: 0, dev_hits: BTreeMap::new(), dev_samples: Vec::new(),
                 kinds: BTreeMap::new(), trail: Vec::new() }
    }

    fn record(&mut self, m: Value) {
        self.nmismatch += 1;
        if self.mismatches.len() < 25 {
            self.mismatches.push(m);
        }
    }

    /// a new client on an empty data directory; checks that it is the specification's empty store
    fn fresh(&mut self) -> Option<Impl> {
        self.nrun += 1;
        self.behaviours += 1;
        self.trail.clear();
        // a small ring of directories: the previous ones are removed when re-used
        let dir = self.work.join(format!("store-{}", self.nrun % 4));
        let mut imp = Impl::fresh(dir, self.fast);
        let mut bad = Vec::new();
        let obs = observe(&imp, &mut self.w, &mut bad);
        self.comparisons += 1;
        let init = self.g.init;
        if skey(&obs) != skey(&self.g.states[init]) || !bad.is_empty() {
            self.record(json!({"path": [], "from": init, "op": {"k": "start"}, "differs": ["initial store"], "observed": obs}));
            return None;
        }
        let rel = self.g.reload_succ(init).map(|i| self.g.states[i].clone());
        let exp = self.g.states[init].clone();
        let (towers, locators) = (self.towers.clone(), self.locators.clone());
        let wrong = check_views(&mut imp, &mut self.w, &exp, rel.as_ref(), &towers, &locators, &mut self.comparisons);
        if !wrong.is_empty() {
            self.record(json!({"path": [], "from": init, "op": {"k": "start"}, "differs": wrong}));
        }
        Some(imp)
    }

    fn step(&mut self, imp: &mut Impl, cur: usize, oi: usize) -> StepResult {
        let op = self.g.out[cur][oi].op.clone();
        let succs = self.g.out[cur][oi].succs.clone();
        self.steps += 1;
        *self.kinds.entry(op["k"].as_str().unwrap_or("?").to_owned()).or_insert(0) += 1;
        self.trail.push(op.clone());
        QUIET.store(true, Ordering::SeqCst);
        let res = catch_unwind(AssertUnwindSafe(|| apply(imp, &mut self.w, &op)));
        QUIET.store(false, Ordering::SeqCst);
        let res = match res {
            Ok(r) => r,
            Err(e) => {
                let msg = e.downcast_ref::<String>().cloned().or_else(|| e.downcast_ref::<&str>().map(|s| s.to_string()))
                    .unwrap_or_else(|| "panic".to_owned());
                let path = self.trail.clone();
                self.record(json!({"path": path, "from": cur, "op": op, "differs": ["panic"], "panic": msg,
                                   "expected": self.g.states[succs[0].0]}));
                return StepResult::Lost;
            }
        };
        let mut wrong: Vec<String> = Vec::new();
        // what the call answered
        self.comparisons += 1;
        match op["k"].as_str().unwrap() {
            "register" => {
                if !op["res"].as_array().unwrap().contains(&res) {
                    wrong.push("result".to_owned());
                }
            }
            "abandon" => {
                if res != json!("ok") {
                    wrong.push("result".to_owned());
                }
            }
            "reload" => {
                if canon(&res["stale"]) != canon(&op["stale"]) {
                    wrong.push("reload.stale".to_owned());
                }
                if res["same_key"] != json!(true) {
                    wrong.push("reload.client_key".to_owned());
                }
            }
            _ => {}
        }
        // (A) the store
        let mut bad = Vec::new();
        let obs = observe(imp, &mut self.w, &mut bad);
        self.comparisons += 1;
        let key = skey(&obs);
        let hit = succs.iter().find(|(s2, _)| self.g.skeys[*s2] == key).cloned();
        for b in &bad {
            wrong.push(format!("raw.{}", b.split(|c| c == '.' || c == ' ').next().unwrap_or("?")));
        }
        let (next, dev) = match hit {
            Some(h) => h,
            None => {
                // attribute the difference with respect to the intended successor (dev = "")
                let intended = succs.iter().find(|(_, d)| d.is_empty()).unwrap_or(&succs[0]).0;
                let mut d = diff_components(&obs, &self.g.states[intended]);
                d.extend(wrong);
                d.sort();
                d.dedup();
                let path = self.trail.clone();
                self.record(json!({"path": path, "from": cur, "op": op, "result": res, "differs": d,
                                   "expected": self.g.states[intended], "observed": obs, "raw": bad}));
                return StepResult::Lost;
            }
        };
        if !dev.is_empty() {
            *self.dev_hits.entry(dev.clone()).or_insert(0) += 1;
            let longest = self.dev_samples.iter().map(|d| d["path"].as_array().unwrap().len()).max().unwrap_or(0);
            if self.dev_samples.len() < 5 || self.trail.len() < longest {
                let intended = succs.iter().find(|(_, d)| d.is_empty()).map(|x| x.0);
                let path = self.trail.clone();
                self.dev_samples.push(json!({"dev": dev, "path": path, "op": op, "observed": obs,
                    "intended": intended.map(|i| self.g.states[i].clone())}));
                self.dev_samples.sort_by_key(|d| d["path"].as_array().unwrap().len());
                self.dev_samples.truncate(5);
            }
        }
        // (B), (C)
        let exp = self.g.states[next].clone();
        let rel = self.g.reload_succ(next).map(|i| self.g.states[i].clone());
        let (towers, locators) = (self.towers.clone(), self.locators.clone());
        wrong.extend(check_views(imp, &mut self.w, &exp, rel.as_ref(), &towers, &locators, &mut self.comparisons));
        if !wrong.is_empty() {
            wrong.sort();
            wrong.dedup();
            let path = self.trail.clone();
            self.record(json!({"path": path, "from": cur, "op": op, "result": res, "differs": wrong, "expected": exp,
                               "observed": obs, "raw": bad}));
        }
        StepResult::At(next)
    }

    fn summary(&self, extra: Value) -> Value {
        json!({"behaviours": self.behaviours, "steps": self.steps, "comparisons": self.comparisons,
               "mismatches": self.nmismatch, "first": self.mismatches, "dev_hits": self.dev_hits,
               "dev_samples": self.dev_samples, "op_kinds": self.kinds, "graph_states": self.g.states.len(),
               "graph_pairs": self.g.out.iter().map(|o| o.len()).sum::<usize>(), "extra": extra})
    }
}

// ---------------------------------------------------------------------------------------------------------------------
// walk: cover every (store, operation) pair the implementation reaches

fn walk(r: &mut Runner, maxlen: usize) -> Value {
    let ns = r.g.states.len();
    let mut covered: Vec<Vec<bool>> = r.g.out.iter().map(|o| vec![false; o.len()]).collect();
    let mut taken: Vec<Vec<Option<usize>>> = r.g.out.iter().map(|o| vec![None; o.len()]).collect();
    let mut parent: Vec<Option<(usize, usize)>> = vec![None; ns];
    let mut visited = vec![false; ns];
    let mut queue: VecDeque<usize> = VecDeque::new();
    let mut pairs_covered = 0u64;
    let mut lost_targets = 0u64;
    let init = r.g.init;
    visited[init] = true;
    queue.push_back(init);
    let first_uncovered = |covered: &Vec<Vec<bool>>, s: usize| covered[s].iter().position(|c| !*c);

    let mut imp = match r.fresh() {
        Some(i) => i,
        None => return r.summary(json!({"walk": "the empty store already differs"})),
    };
    let mut cur = init;
    let mut len = 0usize;
    loop {
        // the next operations to execute from cur: an uncovered one here, or the way to the nearest store that has one
        let mut plan: Option<Vec<usize>> = None;
        if len < maxlen {
            if let Some(oi) = first_uncovered(&covered, cur) {
                plan = Some(vec![oi]);
            } else {
                // bounded breadth-first search along edges the implementation has already taken
                let mut seen: HashMap<usize, (usize, usize)> = HashMap::new();
                let mut q = VecDeque::new();
                q.push_back(cur);
                let mut found = None;
                let mut budget = 3000;
                'bfs: while let Some(x) = q.pop_front() {
                    for (oi, t) in taken[x].iter().enumerate() {
                        if let Some(y) = t {
                            if *y != cur && !seen.contains_key(y) {
                                seen.insert(*y, (x, oi));
                                if first_uncovered(&covered, *y).is_some() {
                                    found = Some(*y);
                                    break 'bfs;
                                }
                                q.push_back(*y);
                                budget -= 1;
                                if budget == 0 {
                                    break 'bfs;
                                }
                            }
                        }
                    }
                }
                if let Some(mut y) = found {
                    let mut p = Vec::new();
                    while y != cur {
                        let (x, oi) = seen[&y];
                        p.push(oi);
                        y = x;
                    }
                    p.reverse();
                    if len + p.len() < maxlen {
                        plan = Some(p);
                    }
                }
            }
        }
        match plan {
            Some(p) => {
                let mut lost = false;
                for oi in p {
                    let was_covered = covered[cur][oi];
                    if !was_covered {
                        covered[cur][oi] = true;
                        pairs_covered += 1;
                    }
                    match r.step(&mut imp, cur, oi) {
                        StepResult::At(nx) => {
                            taken[cur][oi] = Some(nx);
                            if !visited[nx] {
                                visited[nx] = true;
                                parent[nx] = Some((cur, oi));
                                queue.push_back(nx);
                            }
                            cur = nx;
                            len += 1;
                        }
                        StepResult::Lost => {
                            lost = true;
                            break;
                        }
                    }
                }
                if !lost {
                    continue;
                }
            }
            None => {}
        }
        // restart: the oldest known store that still has something uncovered, reached along the discovery tree
        let target = loop {
            match queue.front() {
                None => break None,
                Some(&x) => {
                    if first_uncovered(&covered, x).is_some() {
                        break Some(x);
                    }
                    queue.pop_front();
                }
            }
        };
        let target = match target {
            Some(t) => t,
            None => break,
        };
        let mut path = Vec::new();
        let mut y = target;
        while let Some((x, oi)) = parent[y] {
            path.push((x, oi));
            y = x;
        }
        path.reverse();
        imp = match r.fresh() {
            Some(i) => i,
            None => break,
        };
        cur = init;
        len = 0;
        let mut ok = true;
        for (x, oi) in path {
            debug_assert_eq!(x, cur);
            match r.step(&mut imp, x, oi) {
                StepResult::At(nx) if Some(nx) == taken[x][oi] => {
                    cur = nx;
                    len += 1;
                }
                _ => {
                    ok = false;
                    break;
                }
            }
        }
        if !ok {
            // the same operations no longer lead to the same store: give the target up (it is reported as a mismatch or here)
            lost_targets += 1;
            for c in covered[target].iter_mut() {
                if !*c {
                    *c = true;
                }
            }
            imp = match r.fresh() {
                Some(i) => i,
                None => break,
            };
            cur = init;
            len = 0;
        }
    }
    let nvisited = visited.iter().filter(|v| **v).count();
    let pairs_of_visited: usize = (0..ns).filter(|s| visited[*s]).map(|s| r.g.out[s].len()).sum();
    r.summary(json!({"visited_states": nvisited, "pairs_of_visited_states": pairs_of_visited, "pairs_covered": pairs_covered,
                     "irreproducible_targets": lost_targets}))
}

// ---------------------------------------------------------------------------------------------------------------------
// seqs: every operation sequence of length <= k, each on a fresh directory

fn seqs(r: &mut Runner, k: usize, moving_only: bool) -> Value {
    let mut stack: Vec<Vec<usize>> = vec![Vec::new()];
    let mut nseq = 0u64;
    let mut nmax = 0u64;
    while let Some(prefix) = stack.pop() {
        // execute the prefix from scratch
        let mut imp = match r.fresh() {
            Some(i) => i,
            None => break,
        };
        nseq += 1;
        let mut cur = r.g.init;
        let mut alive = true;
        let mut moved_last = true;
        for oi in &prefix {
            match r.step(&mut imp, cur, *oi) {
                StepResult::At(nx) => {
                    moved_last = nx != cur;
                    cur = nx;
                }
                StepResult::Lost => {
                    alive = false;
                    break;
                }
            }
        }
        if !alive {
            continue;
        }
        if prefix.len() >= k || (moving_only && !moved_last && !prefix.is_empty()) || r.g.out[cur].is_empty() {
            nmax += 1;
            continue;
        }
        for oi in 0..r.g.out[cur].len() {
            let mut p = prefix.clone();
            p.push(oi);
            stack.push(p);
        }
    }
    r.summary(json!({"sequences": nseq, "maximal": nmax, "k": k, "moving_only": moving_only}))
}

/// one given sequence of operations (the "path" of a recorded mismatch)
fn path(r: &mut Runner, ops: &[Value]) -> Value {
    let mut imp = match r.fresh() {
        Some(i) => i,
        None => return r.summary(json!({"path": "the empty store already differs"})),
    };
    let mut cur = r.g.init;
    let mut done = 0;
    for op in ops {
        let k = canon(op);
        let oi = match r.g.out[cur].iter().position(|e| canon(&e.op) == k) {
            Some(i) => i,
            None => return r.summary(json!({"path": format!("operation {} of the path is not enabled in the specification", done + 1)})),
        };
        match r.step(&mut imp, cur, oi) {
            StepResult::At(nx) => cur = nx,
            StepResult::Lost => break,
        }
        done += 1;
    }
    r.summary(json!({"path_steps_done": done}))
}


// ---------------------------------------------------------------------------------------------------------------------
// random: implementation -> specification traces

/// Trace_ClientStore.tla compares typed values: keep numbers numbers and booleans booleans whatever the store returned.
fn sanitize(v: &mut Value, raw: &mut Vec<String>) {
    match v {
        Value::Object(m) => {
            for (k, x) in m.iter_mut() {
                if k == "port" && !x.is_u64() {
                    raw.push(format!("net_addr {x}"));
                    *x = json!(-1);
                } else if k == "ok" && !x.is_boolean() {
                    raw.push("receipt signature".to_owned());
                    *x = json!(false);
                } else if (k == "slots" || k == "start" || k == "expiry") && !x.is_i64() && !x.is_u64() {
                    raw.push(format!("{k} {x}"));
                    *x = json!(-1);
                } else if k == "status" && !x.is_string() {
                    *x = json!("?");
                } else {
                    sanitize(x, raw);
                }
            }
        }
        Value::Array(a) => a.iter_mut().for_each(|x| sanitize(x, raw)),
        _ => {}
    }
}

/// what gettowerinfo prints for every tower the store knows, in the abstract shape (plus concrete checks -> raw)
fn infos(imp: &Impl, w: &mut World, towers: &[String], raw: &mut Vec<String>) -> Value {
    let client = imp.client.as_ref().unwrap();
    let mut out = Vec::new();
    for t in towers {
        let tid = w.tower_id(t);
        let info = match client.load_tower_info(tid) {
            Some(i) => i,
            None => continue,
        };
        let derived = status_name(info.status);
        let j = match client.get_tower_status(&tid) {
            Some(st) => serde_json::to_value(info.with_status(st)).expect("gettowerinfo view does not serialise"),
            None => {
                // main.rs would panic here (unwrap): the tower is on disk but not in memory
                raw.push(format!("gettowerinfo of {t}: on disk, not in memory"));
                let mut j = serde_json::to_value(info).unwrap();
                j["status"] = json!("?");
                j
            }
        };
        let keys = |k: &str| -> Vec<String> { j[k].as_object().map(|m| m.keys().cloned().collect()).unwrap_or_default() };
        for k in ["pending_appointments", "invalid_appointments"] {
            if let Some(m) = j[k].as_object() {
                for (h, b) in m {
                    let l = w.lname_hex(h);
                    if l.starts_with('?') {
                        continue;
                    }
                    let a = w.appointment(&l);
                    if b["encrypted_blob"] != json!(hex::encode(&a.encrypted_blob)) || b["to_self_delay"] != json!(a.to_self_delay) {
                        raw.push(format!("gettowerinfo of {t}: body of {l}"));
                    }
                }
            }
        }
        let mut rc = Vec::new();
        if let Some(m) = j["appointments"].as_object() {
            for (h, sig) in m {
                let l = w.lname_hex(h);
                let ok = if l.starts_with('?') {
                    raw.push(format!("gettowerinfo of {t}: unknown locator {h}"));
                    false
                } else if *sig == json!(w.receipt(t, &l, true).signature()) {
                    true
                } else {
                    if *sig != json!(w.receipt(t, &l, false).signature()) {
                        raw.push(format!("gettowerinfo of {t}: signature of {l}"));
                    }
                    false
                };
                rc.push(json!({"l": l, "ok": ok}));
            }
        }
        let mut proof = Vec::new();
        if let Some(p) = j.get("misbehaving_proof") {
            if !p.is_null() {
                let l = w.lname_hex(p["locator"].as_str().unwrap_or("?"));
                if !l.starts_with('?') && *p != serde_json::to_value(w.proof(t, &l)).unwrap() {
                    raw.push(format!("gettowerinfo of {t}: proof"));
                }
                proof.push(json!(l));
            }
        }
        out.push(json!({"t": t, "port": World::port_of(j["net_addr"].as_str().unwrap_or("?")), "slots": j["available_slots"],
            "start": j["subscription_start"], "expiry": j["subscription_expiry"], "status": j["status"], "derived": derived,
            "pending": keys("pending_appointments").iter().map(|h| w.lname_hex(h)).collect::<Vec<_>>(),
            "invalid": keys("invalid_appointments").iter().map(|h| w.lname_hex(h)).collect::<Vec<_>>(),
            "rcpts": rc, "proof": proof}));
    }
    Value::Array(out)
}

/// The calls main.rs / retrier.rs could make in the (real) store `abs`, with weights. This only GENERATES: the trace
/// specification re-checks that every call was enabled and judges its effect.
fn candidate_ops(abs: &Value, towers: &[String], locators: &[String], rng: &mut StdRng) -> Vec<(u32, Value)> {
    let mut ops: Vec<(u32, Value)> = vec![(6, json!({"k": "reload"}))];
    let has = |set: &Value, t: &str, l: &str| !find(set, |x| x["t"] == t && x["l"] == l).is_empty();
    for t in towers {
        let idx = num(t) as u64;
        let m = find(&abs["mem"], |x| x["t"] == t.as_str());
        // expiries of different towers collide, starts / addresses / slots do not
        let reg = |s: u64, e: u64| json!({"k": "register", "t": t, "port": 10000 * idx + e, "slots": s, "start": 100000 * idx + e, "expiry": e});
        if m.is_empty() {
            ops.push((12, reg(1 + idx, idx)));
            for c in ["receipt", "pending", "invalid", "misbehaving", "remove_pending"] {
                ops.push((1, json!({"k": "ghost", "t": t, "l": locators[rng.gen_range(0..locators.len())], "call": c})));
            }
            continue;
        }
        let m = m[0];
        let status = m["status"].as_str().unwrap_or("?").to_owned();
        let slots = find(&abs["db"]["towers"], |x| x["t"] == t.as_str()).first().and_then(|x| x["slots"].as_u64()).unwrap_or(0);
        let expiry = m["expiry"].as_u64().unwrap_or(0);
        ops.push((3, reg(slots + 1 + rng.gen_range(0..3), expiry + 1 + rng.gen_range(0..2))));
        ops.push((1, reg(slots, expiry + 1)));
        ops.push((1, reg(slots + 1, expiry)));
        ops.push((1, reg(slots, expiry)));
        if slots > 0 {
            ops.push((1, reg(slots - 1, expiry + 1)));
        }
        ops.push((2, json!({"k": "abandon", "t": t})));
        let npending = m["pending"].as_array().map(|a| a.len()).unwrap_or(0);
        if (status == "temporary_unreachable" || status == "subscription_error") && npending > 0 {
            ops.push((3, json!({"k": "giveup", "t": t})));
        }
        if status == "unreachable" {
            ops.push((10, json!({"k": "retry", "t": t})));
        }
        for l in locators {
            let rec = has(&abs["db"]["pend"], t, l) || has(&abs["db"]["inv"], t, l) || has(&abs["db"]["rcpts"], t, l);
            if !rec && status == "reachable" {
                ops.push((6, json!({"k": "receipt", "t": t, "l": l, "slots": rng.gen_range(0..6)})));
                ops.push((5, json!({"k": "invalid", "t": t, "l": l})));
                ops.push((1, json!({"k": "misbehaving", "t": t, "l": l})));
                ops.push((5, json!({"k": "pending", "t": t, "l": l, "why": "conn"})));
                ops.push((4, json!({"k": "pending", "t": t, "l": l, "why": "sub"})));
            } else if !rec && status != "misbehaving" {
                ops.push((8, json!({"k": "pending", "t": t, "l": l, "why": "keep"})));
            }
            if has(&abs["db"]["pend"], t, l) && (status == "temporary_unreachable" || status == "subscription_error") {
                let done = npending == 1;
                if !has(&abs["db"]["rcpts"], t, l) {
                    ops.push((10, json!({"k": "p2a", "t": t, "l": l, "slots": rng.gen_range(0..6), "done": done})));
                    ops.push((1, json!({"k": "p2m", "t": t, "l": l})));
                }
                if !has(&abs["db"]["inv"], t, l) {
                    ops.push((6, json!({"k": "p2i", "t": t, "l": l, "done": done})));
                }
            }
        }
    }
    ops
}

fn random(nt: usize, nl: usize, nops: usize, seed: u64, work: PathBuf, out: &str, fast: bool) -> Value {
    let mut w = World::new();
    let mut rng = StdRng::seed_from_u64(seed);
    let towers: Vec<String> = (1..=nt).map(|i| format!("t{i}")).collect();
    let locators: Vec<String> = (1..=nl).map(|i| format!("l{i}")).collect();
    let mut imp = Impl::fresh(work.join("random"), fast);
    let mut tw = TraceWriter::create(out);
    let mut raw = Vec::new();
    let mut abs = observe(&imp, &mut w, &mut raw);
    sanitize(&mut abs, &mut raw);
    tw.emit(&json!({"ev": "start", "post": abs}));
    let mut kinds: BTreeMap<String, u64> = BTreeMap::new();
    let mut panicked = Value::Null;
    for _ in 0..nops {
        let cands = candidate_ops(&abs, &towers, &locators, &mut rng);
        let total: u32 = cands.iter().map(|c| c.0).sum();
        let mut pick = rng.gen_range(0..total);
        let mut op = cands[0].1.clone();
        for (wt, o) in &cands {
            if pick < *wt {
                op = o.clone();
                break;
            }
            pick -= wt;
        }
        *kinds.entry(op["k"].as_str().unwrap().to_owned()).or_insert(0) += 1;
        QUIET.store(true, Ordering::SeqCst);
        let res = catch_unwind(AssertUnwindSafe(|| apply(&mut imp, &mut w, &op)));
        QUIET.store(false, Ordering::SeqCst);
        let mut raw = Vec::new();
        let res = match res {
            Ok(r) => r,
            Err(e) => {
                let msg = e.downcast_ref::<String>().cloned().or_else(|| e.downcast_ref::<&str>().map(|s| s.to_string()))
                    .unwrap_or_else(|| "panic".to_owned());
                raw.push(format!("panic: {msg}"));
                panicked = json!({"op": op, "panic": msg});
                json!("panic")
            }
        };
        let mut post = observe(&imp, &mut w, &mut raw);
        let mut lt = mem_abstract(&w, &imp.client.as_ref().unwrap().dbm.load_towers());
        let mut inf = infos(&imp, &mut w, &towers, &mut raw);
        sanitize(&mut post, &mut raw);
        sanitize(&mut lt, &mut raw);
        sanitize(&mut inf, &mut raw);
        let mut ev = json!({"ev": "op", "op": op, "res": if res.is_string() { res.clone() } else { json!("") }, "post": post,
                            "load_towers": lt, "infos": inf, "raw": raw});
        if op["k"] == "reload" {
            ev["stale"] = res["stale"].clone();
            ev["same_key"] = res["same_key"].clone();
        }
        tw.emit(&ev);
        abs = ev["post"].clone();
        if !panicked.is_null() {
            break;
        }
    }
    let n = tw.finish();
    json!({"events": n, "out": out, "op_kinds": kinds, "panicked": panicked})
}

fn main() {
    let args: Vec<String> = std::env::args().collect();
    // panics of the code under test are data
    std::panic::set_hook(Box::new(|info| {
        if !QUIET.load(Ordering::SeqCst) {
            eprintln!("store_rig: {info}");
        }
    }));
    if args.len() < 4 {
        eprintln!("usage: store_rig walk <graph> <workdir> <maxlen> | seqs <graph> <workdir> <k> <all|moving> | path <graph> <workdir> <ops.json> | random <towers> <locators> <ops> <seed> <workdir> <out.ndjson>");
        std::process::exit(2);
    }
    let fast = std::env::var("STORE_RIG_FSYNC").map(|v| v != "1").unwrap_or(true);
    if args[1] == "random" {
        if args.len() < 8 {
            eprintln!("usage: store_rig random <towers> <locators> <ops> <seed> <workdir> <out.ndjson>");
            std::process::exit(2);
        }
        let out = random(args[2].parse().unwrap(), args[3].parse().unwrap(), args[4].parse().unwrap(), args[5].parse().unwrap(),
                         PathBuf::from(&args[6]), &args[7], fast);
        println!("{out}");
        return;
    }
    let g = Graph::load(&args[2]);
    let mut r = Runner::new(g, PathBuf::from(&args[3]), fast);
    let out = match args[1].as_str() {
        "walk" => {
            let maxlen = args.get(4).map(|x| x.parse().unwrap()).unwrap_or(60);
            walk(&mut r, maxlen)
        }
        "seqs" => {
            let k = args.get(4).map(|x| x.parse().unwrap()).unwrap_or(3);
            let moving = args.get(5).map(|x| x == "moving").unwrap_or(false);
            seqs(&mut r, k, moving)
        }
        "path" => {
            let ops: Vec<Value> = serde_json::from_str(&std::fs::read_to_string(&args[4]).expect("cannot read ops file")).expect("bad ops file");
            path(&mut r, &ops)
        }
        _ => {
            eprintln!("unknown mode");
            std::process::exit(2);
        }
    };
    println!("{out}");
}
