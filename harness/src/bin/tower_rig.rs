//! tower_rig run <script.json> <trace.ndjson> <workdir>
//!
//! Executes scenario scripts (JSON) on the real tower components over the simulated bitcoind and records one trace event
//! per specification action (validated by spec/Trace_Tower.tla).  See harness/src/tower.rs and DESIGN.md section 4.

use std::path::PathBuf;
use std::sync::atomic::{AtomicU64, Ordering};
use std::sync::{Arc, Mutex};

use serde_json::{json, Value};

use verif_harness::simnode::{Node, NodeState, Verdict};
use verif_harness::tower::{install_panic_hook, Cfg, Rig};

fn cfg_of(v: &Value) -> (Cfg, u32) {
    (
        Cfg {
            scale: v["scale"].as_u64().unwrap_or(1) as u32,
            slots: (v["S"].as_u64().unwrap() * v["scale"].as_u64().unwrap_or(1)) as u32,
            duration: v["D"].as_u64().unwrap() as u32,
            grace: v["G"].as_u64().unwrap() as u32,
            cache_n: v["cache"].as_u64().unwrap_or(6) as usize,
            idx_n: v["idx"].as_u64().unwrap_or(100) as usize,
        },
        v["h0"].as_u64().unwrap_or(110) as u32,
    )
}

fn new_node(h0: u32) -> Node {
    let mut n = NodeState::new();
    for _ in 0..h0 {
        n.mine(vec![]);
    }
    Arc::new(Mutex::new(n))
}

/// progress counter for the watchdog (an op of the code under test that never returns is data: a Hung event)
static PROGRESS: AtomicU64 = AtomicU64::new(0);
static CURRENT_OP: Mutex<String> = Mutex::new(String::new());

struct Exec {
    rig: Rig,
    aborted: usize,
    /// the tower could not be brought back after an abort: the rest of the scenario is skipped
    dead: bool,
    in_poll: bool,
    crashed_in_poll: bool,
    hung: bool,
    while_down: Vec<Value>,
}

impl Exec {
    fn tx(&mut self, s: i64) -> bitcoin::Transaction {
        let tx = self.rig.rec.lock().unwrap().sym.tx(s);
        if s % 10 != 0 {
            let d = self.rig.rec.lock().unwrap().sym.tx((s / 10) * 10);
            self.rig.node.lock().unwrap().parent.insert(tx.compute_txid(), d.compute_txid());
        }
        tx
    }

    fn txs(&mut self, v: &Value) -> Vec<bitcoin::Transaction> {
        v.as_array().map(|a| a.iter().map(|x| self.tx(x.as_i64().unwrap())).collect()).unwrap_or_default()
    }

    /// after an abort of the code under test: probe, then restart the tower on the same database
    fn recover(&mut self) {
        let was_crash = std::mem::take(&mut self.rig.rec.lock().unwrap().last_abort) == "crash";
        if was_crash {
            // a simulated crash: everything in memory is gone; restart on the same data directory and catch up
            self.crashed_in_poll = self.in_poll;
            self.rig.crash();
            // what happens at the node while the tower is down
            let down_ops = std::mem::take(&mut self.while_down);
            for op in down_ops.iter() {
                self.op(op);
            }
            let mut ok = self.rig.boot();
            if !ok && std::mem::take(&mut self.rig.rec.lock().unwrap().last_abort) == "crash" {
                self.rig.crash();
                ok = self.rig.boot();
            }
            if !ok || !self.rig.poll() {
                self.rig.crash();
                self.dead = true;
            }
            return;
        }
        self.aborted += 1;
        self.rig.probe();
        self.rig.crash();
        if !self.rig.boot() || !self.rig.poll() {
            // the restarted tower aborts again: give up on this scenario
            self.rig.crash();
            self.dead = true;
        }
    }

    fn poll(&mut self) {
        if self.rig.tower.is_none() {
            return;
        }
        self.in_poll = true;
        if !self.rig.poll() {
            self.recover();
        }
        self.in_poll = false;
    }

    /// Explores the interleavings of the concurrent section: DFS over schedules with a bound on preemptions, then random
    /// schedules. Every schedule starts from the same checkpoint (database file + node state), restarted like after a crash.
    fn explore(&mut self, conc: &Value, wd: &std::path::Path, idx: usize) -> usize {
        let threads: Vec<Value> = conc["threads"].as_array().unwrap().clone();
        let bound = conc["preemptions"].as_u64().unwrap_or(2) as usize;
        let max = conc["max"].as_u64().unwrap_or(200) as usize;
        let nrandom = conc["random"].as_u64().unwrap_or(0) as usize;
        let seed = conc["seed"].as_u64().unwrap_or(1);
        // checkpoint
        self.rig.tower = None;
        self.rig.rec.lock().unwrap().comps = None;
        self.rig.rec.lock().unwrap().rdb = None;
        let ckpt = wd.join(format!("ckpt_{idx}.sql3"));
        std::fs::copy(&self.rig.db_path, &ckpt).unwrap();
        let node_ckpt = self.rig.node.lock().unwrap().clone();
        // schedules are explored in order of their number of preemptions (all schedules with none, then with one, ...):
        // buckets[p] holds the prefixes whose last choice makes it p preemptions
        let mut buckets: Vec<std::collections::VecDeque<Vec<usize>>> = (0..=bound).map(|_| std::collections::VecDeque::new()).collect();
        buckets[0].push_back(vec![]);
        let mut runs = 0usize;
        let mut randoms = 0usize;
        loop {
            let next = if runs >= max { None } else { buckets.iter_mut().find(|b| !b.is_empty()).and_then(|b| b.pop_front()) };
            let (prefix, random) = if let Some(p) = next {
                (p, None)
            } else if randoms < nrandom {
                randoms += 1;
                (vec![], Some(seed * 1000 + randoms as u64))
            } else {
                break;
            };
            // every explored schedule is progress for the watchdog (a schedule that blocks has its own 15 s bound in run_conc)
            PROGRESS.fetch_add(1, Ordering::SeqCst);
            self.rig.restore(&ckpt, node_ckpt.clone());
            // restart from the checkpoint WITHOUT the catch-up poll: blocks mined and not yet polled belong to the concurrent section
            if !self.rig.boot() {
                break;
            }
            let plen = prefix.len();
            let out = self.rig.run_conc(&threads, prefix, random);
            runs += 1;
            if random.is_none() {
                // expand: alternatives at every decision after the prefix, within the preemption bound
                let d = &out.decisions;
                let mut preempt = 0usize;
                for k in 0..d.len() {
                    let is_preempt = |choice: usize| d[k].running.map(|r| d[k].runnable.contains(&r) && choice != r).unwrap_or(false);
                    if k >= plen {
                        for alt in d[k].runnable.iter() {
                            if *alt != d[k].chosen {
                                let p = preempt + if is_preempt(*alt) { 1 } else { 0 };
                                if p <= bound {
                                    let mut np: Vec<usize> = d[..k].iter().map(|x| x.chosen).collect();
                                    np.push(*alt);
                                    buckets[p].push_back(np);
                                }
                            }
                        }
                    }
                    if is_preempt(d[k].chosen) {
                        preempt += 1;
                    }
                }
            }
        }
        let _ = std::fs::remove_file(&ckpt);
        runs
    }

    fn op(&mut self, op: &Value) {
        if self.dead {
            return;
        }
        let name = op["op"].as_str().unwrap();
        PROGRESS.fetch_add(1, Ordering::SeqCst);
        *CURRENT_OP.lock().unwrap() = name.to_string();
        match name {
            "boot" => {
                if !self.rig.boot() && std::mem::take(&mut self.rig.rec.lock().unwrap().last_abort) == "crash" {
                    self.rig.crash();
                    self.rig.boot();
                }
            }
            "crash" => self.rig.crash(),
            "restart" => {
                // a crash between actions followed by a restart and the catch-up poll; the final state is compared with
                // the uninterrupted reference run
                self.crashed_in_poll = true;
                self.rig.crash();
                if !self.rig.boot() || !self.rig.poll() {
                    self.rig.crash();
                    self.dead = true;
                }
            }
            "spawn_add" => {
                if self.rig.tower.is_some() {
                    self.rig.spawn_add(
                        op["thread"].as_str().unwrap(),
                        op["u"].as_i64().unwrap(),
                        op["l"].as_i64().unwrap(),
                        &op["blob"],
                        op["tsd"].as_u64().unwrap_or(42) as u32,
                    );
                }
            }
            "spawn_poll" => {
                if self.rig.tower.is_some() {
                    self.rig.spawn_poll(op["thread"].as_str().unwrap());
                }
            }
            "wait_flag" => {
                if self.rig.tower.is_some() {
                    self.rig.wait_flag(op["reachable"].as_bool().unwrap(), op["ms"].as_u64().unwrap_or(1500));
                }
            }
            "join" => {
                if self.rig.tower.is_some() {
                    let ok = self.rig.join(op["thread"].as_str().unwrap(), op["ms"].as_u64().unwrap_or(1500));
                    if !ok {
                        self.hung = true;
                    }
                }
            }
            "end_async" => {
                verif_harness::simnode::release_all();
                // after the joins: a tower with threads blocked for ever is abandoned and restarted (what an operator would do)
                if self.hung {
                    self.hung = false;
                    self.rig.abandon();
                    if !self.rig.boot() || !self.rig.poll() {
                        self.rig.crash();
                        self.dead = true;
                    }
                }
            }
            "rpc_up" => {
                let up = op["up"].as_bool().unwrap();
                self.rig.node.lock().unwrap().rpc_up = up;
                if up {
                    verif_harness::simnode::hold_inflight();
                }
            }
            "probe" => {
                self.rig.probe();
            }
            "cli" => {
                if self.rig.tower.is_some() {
                    let users: Vec<i64> = op["users"].as_array().map(|a| a.iter().filter_map(|x| x.as_i64()).collect()).unwrap_or_else(|| vec![1, 2, 3]);
                    self.rig.cli(&users);
                }
            }
            "poll" => self.poll(),
            "register" => {
                if self.rig.tower.is_some() {
                    let r = self.rig.register(op["u"].as_i64().unwrap());
                    if r["code"] == "abort" {
                        self.recover();
                    }
                }
            }
            "add" => {
                if self.rig.tower.is_some() {
                    let r = self.rig.add(
                        op["u"].as_i64().unwrap(),
                        op["l"].as_i64().unwrap(),
                        &op["blob"],
                        op["tsd"].as_u64().unwrap_or(42) as u32,
                        op["sig"].as_str().unwrap_or("valid"),
                    );
                    if r["code"] == "abort" {
                        self.recover();
                    }
                }
            }
            "get" => {
                if self.rig.tower.is_some() {
                    let r = self.rig.get(op["u"].as_i64().unwrap(), op["l"].as_i64().unwrap(), op["sig"].as_str().unwrap_or("valid"));
                    if r["code"] == "abort" {
                        self.recover();
                    }
                }
            }
            "sub" => {
                if self.rig.tower.is_some() {
                    let r = self.rig.sub(op["u"].as_i64().unwrap(), op["sig"].as_str().unwrap_or("valid"));
                    if r["code"] == "abort" {
                        self.recover();
                    }
                }
            }
            "mine" => {
                let mut txs = self.txs(&op["txs"]);
                {
                    // a transaction is confirmed at most once on the active chain
                    let node = self.rig.node.lock().unwrap();
                    txs.retain(|t| node.on_chain(&t.compute_txid()).is_none());
                }
                self.rig.node.lock().unwrap().mine(txs);
                if op["poll"].as_bool().unwrap_or(false) {
                    self.poll();
                }
            }
            "ff" => {
                let n = op["n"].as_u64().unwrap();
                let each = op["poll"].as_str().unwrap_or("end");
                for _ in 0..n {
                    self.rig.node.lock().unwrap().mine(vec![]);
                    if each == "each" {
                        self.poll();
                    }
                }
                if each == "end" {
                    self.poll();
                }
            }
            "reorg" => {
                let depth = op["depth"].as_u64().unwrap() as usize;
                let to_mempool = op["to_mempool"].as_bool().unwrap_or(true);
                let blocks: Vec<Vec<bitcoin::Transaction>> =
                    op["blocks"].as_array().unwrap().iter().map(|b| self.txs(b)).collect();
                let mut node = self.rig.node.lock().unwrap();
                node.disconnect(depth, to_mempool);
                for mut txs in blocks {
                    txs.retain(|t| node.on_chain(&t.compute_txid()).is_none());
                    node.mine(txs);
                }
            }
            "verdict" => {
                let tx = self.tx(op["tx"].as_i64().unwrap());
                let v = match &op["v"] {
                    Value::String(s) if s == "ok" => Verdict::Ok,
                    Value::String(s) if s == "rej" => Verdict::Code(-26),
                    Value::String(s) if s == "res" => Verdict::Code(-27),
                    Value::String(s) if s == "err" => Verdict::Err,
                    Value::Number(n) => Verdict::Code(n.as_i64().unwrap() as i32),
                    other => panic!("bad verdict {other}"),
                };
                let times = op["times"].as_u64().unwrap_or(1);
                let mut node = self.rig.node.lock().unwrap();
                let q = node.scripted.entry(tx.compute_txid()).or_default();
                for _ in 0..times {
                    q.push_back(v.clone());
                }
            }
            "reject" => {
                let tx = self.tx(op["tx"].as_i64().unwrap());
                let code = op["code"].as_i64().unwrap_or(-26) as i32;
                self.rig.node.lock().unwrap().policy_reject.insert(tx.compute_txid(), code);
            }
            "unreject" => {
                let tx = self.tx(op["tx"].as_i64().unwrap());
                self.rig.node.lock().unwrap().policy_reject.remove(&tx.compute_txid());
            }
            "mempool_add" => {
                let tx = self.tx(op["tx"].as_i64().unwrap());
                let mut node = self.rig.node.lock().unwrap();
                if !node.in_mempool(&tx.compute_txid()) {
                    node.mempool.push(tx);
                }
            }
            "mempool_drop" => {
                let tx = self.tx(op["tx"].as_i64().unwrap());
                let id = tx.compute_txid();
                self.rig.node.lock().unwrap().mempool.retain(|t| t.compute_txid() != id);
            }
            "node" => {
                let up = op["up"].as_bool().unwrap();
                self.rig.node.lock().unwrap().up = up;
                if up {
                    verif_harness::simnode::hold_inflight();
                }
            }
            "fault" => {
                let mut node = self.rig.node.lock().unwrap();
                let times = op["times"].as_u64().unwrap_or(1) as usize;
                match op["kind"].as_str().unwrap() {
                    "best" => node.faults.best_fail = times,
                    "header" => node.faults.header_fail = times,
                    "block" => {
                        // offset from the node tip: 0 = tip, 1 = its parent, ...
                        let off = op["offset"].as_u64().unwrap_or(0) as usize;
                        let idx = node.chain.len() - 1 - off;
                        let h = node.chain[idx].block_hash();
                        let transient = op["transient"].as_bool().unwrap_or(true);
                        node.faults.block_fail.insert(h, (times, transient));
                    }
                    "get_odd" => {
                        // the next getrawtransaction calls are answered with an unexpected error code / a malformed result
                        for v in op["replies"].as_array().unwrap() {
                            node.faults.get_odd.push_back(v.as_i64().map(|c| c as i32));
                        }
                    }
                    "http503" => {
                        let base = node.rpc_calls;
                        for i in op["at"].as_array().unwrap() {
                            node.faults.rpc_http503_at.insert(base + i.as_u64().unwrap() as usize);
                        }
                    }
                    "rpc_after" => {
                        // the transaction RPC interface answers n more calls and then goes away (until rpc_up is set again)
                        node.faults.rpc_down_after = Some(op["n"].as_u64().unwrap() as usize);
                    }
                    "rpc" => {
                        let base = node.rpc_calls;
                        for i in op["at"].as_array().unwrap() {
                            node.faults.rpc_fail_at.insert(base + i.as_u64().unwrap() as usize);
                        }
                    }
                    k => panic!("unknown fault kind {k}"),
                }
            }
            other => panic!("unknown op {other}"),
        }
    }
}

fn main() {
    let args: Vec<String> = std::env::args().collect();
    if args.len() < 5 || args[1] != "run" {
        eprintln!("usage: tower_rig run <script.json> <trace.ndjson> <workdir>");
        std::process::exit(2);
    }
    install_panic_hook();
    // watchdog: an operation of the code under test that does not return within WATCHDOG_S seconds (asynchronous calls have
    // their own bounded joins) ends the run with a Hung event; the trace recorded so far is judged
    let trace_path = args[3].clone();
    std::thread::spawn(move || {
        let limit = std::env::var("VERIF_WATCHDOG_S").ok().and_then(|s| s.parse::<u64>().ok()).unwrap_or(40);
        let mut last = PROGRESS.load(Ordering::SeqCst);
        let mut since = std::time::Instant::now();
        loop {
            std::thread::sleep(std::time::Duration::from_millis(500));
            let now = PROGRESS.load(Ordering::SeqCst);
            if now != last {
                last = now;
                since = std::time::Instant::now();
            } else if since.elapsed().as_secs() >= limit {
                let op = CURRENT_OP.lock().map(|g| g.clone()).unwrap_or_default();
                use std::io::Write;
                if let Ok(mut f) = std::fs::OpenOptions::new().append(true).open(&trace_path) {
                    let _ = writeln!(f, "{}", json!({"act": "Hung", "thread": "main", "op": op, "prop": "C11"}));
                    let _ = writeln!(f, "{}", json!({"act": "end"}));
                }
                println!("{}", json!({"scenarios": 0, "ops": 0, "events": 0, "aborts": 0, "per_scenario": [], "hung": op}));
                std::process::exit(0);
            }
        }
    });
    let script: Value = serde_json::from_str(&std::fs::read_to_string(&args[2]).expect("cannot read script")).expect("bad script");
    let wd = PathBuf::from(&args[4]);
    std::fs::create_dir_all(&wd).unwrap();
    let scenarios = script["scenarios"].as_array().expect("scenarios");
    let (cfg0, h00) = cfg_of(&script["cfg"]);
    let mut exec: Option<Exec> = None;
    let mut n_ops = 0usize;
    let mut conc_runs = 0usize;
    let mut finals: std::collections::HashMap<usize, Value> = std::collections::HashMap::new();
    let mut per_scenario: Vec<Value> = Vec::new();
    for (i, sc) in scenarios.iter().enumerate() {
        let (cfg, h0) = if sc.get("cfg").is_some() { cfg_of(&sc["cfg"]) } else { (cfg0, h00) };
        let db = wd.join(format!("tower_{i}.sql3"));
        let _ = std::fs::remove_file(&db);
        let node = new_node(h0);
        match exec.as_mut() {
            None => {
                exec = Some(Exec { rig: Rig::new(&args[3], db.clone(), cfg, node), aborted: 0, dead: false, in_poll: false, crashed_in_poll: false, hung: false, while_down: Vec::new() });
            }
            Some(e) => {
                e.rig.reset(db.clone(), cfg, node);
                e.dead = false;
            }
        }
        let e = exec.as_mut().unwrap();
        e.crashed_in_poll = false;
        e.while_down = sc["while_down"].as_array().cloned().unwrap_or_default();
        e.rig.rec.lock().unwrap().last_abort.clear();
        e.rig.rec.lock().unwrap().emit_plain(json!({"act": "Init", "name": sc["name"], "scenario": i}));
        // crash enumeration: arm the k-th crash point (durable writes and node RPCs) of this scenario, if asked
        teos_common::verif::arm(sc["crash_at"].as_u64().map(|k| k as usize));
        for op in sc["ops"].as_array().unwrap() {
            e.op(op);
            n_ops += 1;
        }
        if sc.get("conc").is_some() && !e.dead {
            conc_runs += e.explore(&sc["conc"], &wd, i);
        }
        let (points, labels) = teos_common::verif::passed();
        teos_common::verif::arm(None);
        // the durable state at the end of the scenario; for a crashed variant whose crash hit a poll (or the bootstrap), the
        // final state of the uninterrupted reference run of the same scenario is attached for comparison
        {
            let mut rec = e.rig.rec.lock().unwrap();
            let fin = rec.project_db();
            if let Some(r) = sc["ref"].as_u64() {
                if e.crashed_in_poll && !e.dead {
                    if let Some(reference) = finals.get(&(r as usize)) {
                        rec.emit_plain(json!({"act": "RefFinal", "mine": fin, "reference": reference}));
                    }
                }
            } else {
                finals.insert(i, fin);
            }
        }
        per_scenario.push(json!({"points": points, "labels": labels, "dead": e.dead}));
        // leave the scenario: drop the tower, remove its database
        e.rig.tower = None;
        e.rig.rec.lock().unwrap().comps = None;
        e.rig.rec.lock().unwrap().rdb = None;
        let _ = std::fs::remove_file(&db);
    }
    let e = exec.unwrap();
    let aborted = e.aborted;
    let rec = e.rig.rec.clone();
    drop(e);
    let mut r = rec.lock().unwrap();
    r.emit_plain(json!({"act": "end"}));
    let n = r.tw.n;
    r.tw.flush();
    println!("{}", json!({"scenarios": scenarios.len(), "ops": n_ops, "events": n, "aborts": aborted, "per_scenario": per_scenario, "conc_runs": conc_runs}));
}
