//! C20: binds spec/Config.tla to teos::config (from_file, Opt, Config::patch_with_options, Config::verify) and to the
//! start of the real `teosd` binary.
//!
//! The rig knows nothing about the configuration rules.  Option names, their types, their command-line spelling, the
//! documented defaults and the network names come from the META line printed by TLC (MC_Config.tla); the sources of a
//! case and the expected observations come from the CASE lines.
//!
//! `cases <meta.json> <cases.ndjson> <workdir>`
//!     spec -> impl.  Every line is a case {"fam","ctx","file":{opt:value},"cli":{opt:value},"exp":{...}}.  The rig writes
//!     <workdir>/teos.toml from "file", parses the command line built from "cli" with `Opt::from_iter_safe`, runs
//!     `from_file::<Config>`, `patch_with_options`, `verify` as main.rs does and compares field by field with "exp".
//! `random <meta.json> <n> <seed> <out.ndjson> <workdir>`
//!     impl -> spec.  Random sources (every option at random present / absent in each source, random values of its
//!     type), executed the same way; the observations are recorded for Trace_Config.tla.  No comparison here.
//! `rerun <meta.json> <in.ndjson> <out.ndjson> <workdir>`
//!     impl -> spec for given sources: every input line has "file" and "cli" (a CASE line, a recorded event, a replay
//!     file entry) and optionally "file_text" (written verbatim as teos.toml instead of rendering "file"); the sources
//!     are executed again on the current tree and recorded as events for Trace_Config.tla.
//! `teosd <teosd binary> <meta.json> <cases.ndjson> <workdir>`
//!     the cases of family "bin" on the real binary: a fresh data directory per case, TCP listeners on every address /
//!     port the daemon could pick for bitcoind, observation of exit status, connection target, credentials sent,
//!     directories created, number of tower keys after two runs, and the daemon's own report of non-default settings.
//!
//! `toolbin <teos-cli binary> <meta.json> <cases.ndjson> <workdir>`
//!     the cases of program "teos-cli" on the real binary: data directory with teos.toml and the certificates the tool
//!     reads, listeners wherever it could look for the tower; observed: where it connects.
//!
//! Output: one JSON summary on stdout.  A panic of the code under test is data.

use std::collections::{BTreeMap, BTreeSet};
use std::io::{BufRead, BufReader, Read, Write};
use std::net::{IpAddr, SocketAddr, TcpListener, TcpStream};
use std::panic::{catch_unwind, AssertUnwindSafe};
use std::path::{Path, PathBuf};
use std::process::{Command, Stdio};
use std::sync::atomic::{AtomicBool, AtomicU64, Ordering};
use std::sync::mpsc::{channel, Receiver, Sender};
use std::time::{Duration, Instant};

use rand::rngs::StdRng;
use rand::{Rng, SeedableRng};
use serde_json::{json, Map, Value};
use structopt::StructOpt;

use teos::cli_config;
use teos::config::{self, Config, Opt};
use verif_harness::trace::TraceWriter;

/// true while code under test runs inside catch_unwind (its panics are data and stay quiet)
static IN_SUT: AtomicBool = AtomicBool::new(false);

/// counts the cases whose file mentions nothing: every other one of them runs without any teos.toml at all
static EMPTY_FILES: AtomicU64 = AtomicU64::new(0);

const PORT_OPT: &str = "btc_rpc_port";
const NET_OPT: &str = "btc_network";
const DAEMON: &str = "teosd";

// ---------------------------------------------------------------------------------------------------------------
// META

struct OptMeta {
    kind: String,
    cli: String, // "" = no command-line option
}

struct Meta {
    opts: BTreeMap<String, OptMeta>,
    defaults: Map<String, Value>,
    known: Vec<String>,
    unknown: Vec<String>,
    net_default_port: Map<String, Value>,
    tool_opts: Vec<String>,
    tool_defaults: Map<String, Value>,
    tool_command: String,
}

fn as_obj(v: &Value) -> Map<String, Value> {
    match v {
        Value::Object(m) => m.clone(),
        // ToJson prints the empty function as the empty sequence
        Value::Array(a) if a.is_empty() => Map::new(),
        other => panic!("expected a JSON object, got {other}"),
    }
}

fn strs(v: &Value) -> Vec<String> {
    v.as_array()
        .map(|a| a.iter().map(|x| x.as_str().unwrap().to_owned()).collect())
        .unwrap_or_default()
}

/// The work directory as an absolute path (the daemon is started with another current directory).
fn abs(workdir: &str) -> PathBuf {
    std::fs::create_dir_all(workdir).expect("cannot create the work directory");
    std::fs::canonicalize(workdir).expect("cannot resolve the work directory")
}

fn load_meta(path: &str) -> Meta {
    let v: Value = serde_json::from_str(&std::fs::read_to_string(path).expect("cannot read meta")).expect("bad meta");
    let mut opts = BTreeMap::new();
    for (k, o) in as_obj(&v["opts"]) {
        opts.insert(
            k,
            OptMeta {
                kind: o["kind"].as_str().unwrap().to_owned(),
                cli: o["cli"].as_str().unwrap().to_owned(),
            },
        );
    }
    Meta {
        opts,
        defaults: as_obj(&v["defaults"]),
        known: strs(&v["known_networks"]),
        unknown: strs(&v["unknown_networks"]),
        net_default_port: as_obj(&v["net_default_port"]),
        tool_opts: strs(&v["tool_opts"]),
        tool_defaults: as_obj(&v["tool_defaults"]),
        tool_command: v["tool_command"].as_str().unwrap().to_owned(),
    }
}

// ---------------------------------------------------------------------------------------------------------------
// concretisation of a pair of sources

fn toml_text(file: &Map<String, Value>) -> String {
    let mut s = String::new();
    for (k, v) in file {
        match v {
            Value::String(x) => s.push_str(&format!("{k} = \"{}\"\n", x.replace('\\', "\\\\").replace('"', "\\\""))),
            Value::Number(n) => s.push_str(&format!("{k} = {n}\n")),
            Value::Bool(b) => s.push_str(&format!("{k} = {b}\n")),
            other => panic!("cannot write {other} to TOML"),
        }
    }
    s
}

fn cli_args(prog: &str, cli: &Map<String, Value>, meta: &Meta, datadir: &Path) -> Vec<String> {
    let mut a = vec![prog.to_owned(), "--datadir".to_owned(), datadir.to_str().unwrap().to_owned()];
    for (k, v) in cli {
        let name = &meta.opts.get(k).unwrap_or_else(|| panic!("unknown option {k}")).cli;
        assert!(!name.is_empty(), "{k} has no command-line option");
        match v {
            Value::Bool(true) => a.push(format!("--{name}")),
            Value::Bool(false) => panic!("a switch cannot be given as false on the command line"),
            Value::String(x) => {
                a.push(format!("--{name}"));
                a.push(x.clone());
            }
            Value::Number(n) => {
                a.push(format!("--{name}"));
                a.push(n.to_string());
            }
            other => panic!("cannot pass {other} on the command line"),
        }
    }
    if prog != DAEMON {
        a.push(meta.tool_command.clone());
    }
    a
}

/// "The file mentions nothing" is concretised alternately as an empty teos.toml and as no teos.toml.
fn write_conf_file(dir: &Path, file_text: &str) {
    let path = dir.join("teos.toml");
    if file_text.is_empty() && EMPTY_FILES.fetch_add(1, Ordering::SeqCst) % 2 == 1 {
        let _ = std::fs::remove_file(&path);
    } else {
        std::fs::write(&path, file_text).expect("cannot write teos.toml");
    }
}

/// What the real code did with one pair of sources.
struct Run {
    patched: Value,
    verdict: &'static str, // "running" | "refused"; teos-cli: "ready"
    reason: String,
    fin: Value,
}

enum Outcome {
    Done(Run),
    CliRejected(String),
    Panic(String),
}

fn classify(msg: &str) -> &'static str {
    let m = msg.to_lowercase();
    if m.contains("auth") {
        "auth"
    } else if m.contains("network") {
        "network"
    } else {
        "other"
    }
}

/// main.rs, lines "let opt = Opt::from_args()" to "conf.verify()" (teos-cli: cli.rs up to "conf.patch_with_options"),
/// on the real types.
fn run_inproc(prog: &str, dir: &Path, file: &Map<String, Value>, cli: &Map<String, Value>, meta: &Meta) -> Outcome {
    run_inproc_text(prog, dir, &toml_text(file), cli, meta)
}

fn run_inproc_text(prog: &str, dir: &Path, file_text: &str, cli: &Map<String, Value>, meta: &Meta) -> Outcome {
    write_conf_file(dir, file_text);
    let args = cli_args(prog, cli, meta, dir);
    IN_SUT.store(true, Ordering::SeqCst);
    let r = catch_unwind(AssertUnwindSafe(|| {
        if prog != DAEMON {
            let opt = match cli_config::Opt::from_iter_safe(args.iter()) {
                Ok(o) => o,
                Err(e) => return Outcome::CliRejected(e.message.lines().next().unwrap_or("").to_owned()),
            };
            let path = config::data_dir_absolute_path(opt.data_dir.clone());
            let mut conf = config::from_file::<cli_config::Config>(&path.join("teos.toml"));
            conf.patch_with_options(opt);
            let v = json!({"rpc_bind": conf.rpc_bind, "rpc_port": conf.rpc_port});
            return Outcome::Done(Run { patched: v.clone(), verdict: "ready", reason: String::new(), fin: v });
        }
        let opt = match Opt::from_iter_safe(args.iter()) {
            Ok(o) => o,
            Err(e) => return Outcome::CliRejected(e.message.lines().next().unwrap_or("").to_owned()),
        };
        let path = config::data_dir_absolute_path(opt.data_dir.clone());
        let conf_file_path: PathBuf = path.join("teos.toml");
        let mut conf = config::from_file::<Config>(&conf_file_path);
        conf.patch_with_options(opt);
        let patched = serde_json::to_value(&conf).unwrap();
        let (verdict, reason) = match conf.verify() {
            Ok(()) => ("running", String::new()),
            Err(e) => ("refused", classify(&e.to_string()).to_owned()),
        };
        Outcome::Done(Run {
            patched,
            verdict,
            reason,
            fin: serde_json::to_value(&conf).unwrap(),
        })
    }));
    IN_SUT.store(false, Ordering::SeqCst);
    match r {
        Ok(o) => o,
        Err(p) => Outcome::Panic(
            p.downcast_ref::<String>()
                .cloned()
                .or_else(|| p.downcast_ref::<&str>().map(|s| s.to_string()))
                .unwrap_or_else(|| "panic".to_owned()),
        ),
    }
}

/// Field-by-field comparison with the expectation computed by Config.tla.  Returns (differing items, comparisons).
fn compare(exp: &Value, run: &Run) -> (Vec<String>, u64) {
    let mut bad = Vec::new();
    let mut n = 0u64;
    let settings = as_obj(&exp["settings"]);
    for (o, v) in &settings {
        n += 1;
        if run.patched.get(o) != Some(v) {
            bad.push(format!("patched:{o}"));
        }
    }
    if exp["port_explicit"].as_bool().unwrap() {
        n += 1;
        if run.patched.get(PORT_OPT) != Some(&exp["port"]) {
            bad.push(format!("patched:{PORT_OPT}"));
        }
    }
    if run.verdict == "ready" {
        return (bad, n); // teos-cli: nothing is verified
    }
    let accept = exp["accept"].as_bool().unwrap();
    n += 1;
    match (accept, run.verdict) {
        (true, "refused") => bad.push("refused-valid".to_owned()),
        (false, "running") => bad.push("accepted-unsafe".to_owned()),
        _ => {}
    }
    if accept && run.verdict == "running" {
        for (o, v) in &settings {
            n += 1;
            if o == NET_OPT {
                let names = strs(&exp["final_network"]);
                if !run.fin.get(o).and_then(|x| x.as_str()).map(|x| names.iter().any(|y| y == x)).unwrap_or(false) {
                    bad.push(format!("final:{o}"));
                }
            } else if run.fin.get(o) != Some(v) {
                bad.push(format!("final:{o}"));
            }
        }
        n += 1;
        if run.fin.get(PORT_OPT) != Some(&exp["final_port"]) {
            bad.push(format!("final:{PORT_OPT}"));
        }
    } else if !accept && run.verdict == "refused" && exp["port_explicit"].as_bool().unwrap() {
        n += 1;
        if run.fin.get(PORT_OPT) != Some(&exp["port"]) {
            bad.push(format!("final:{PORT_OPT}"));
        }
    }
    (bad, n)
}

struct Tally {
    cases: u64,
    comparisons: u64,
    running: u64,
    refused: u64,
    bad_cases: u64,
    signatures: BTreeMap<String, u64>,
    /// per signature: the example with the fewest options mentioned in its sources
    examples: BTreeMap<String, (usize, Value)>,
}

impl Tally {
    fn new() -> Self {
        Tally { cases: 0, comparisons: 0, running: 0, refused: 0, bad_cases: 0, signatures: BTreeMap::new(), examples: BTreeMap::new() }
    }

    /// A signature is the family plus the set of differing items.
    fn record(&mut self, line: usize, case: &Value, differs: Vec<String>, got: Value) {
        self.bad_cases += 1;
        let sig = format!("{}|{}", case["fam"].as_str().unwrap_or("?"), differs.join("+"));
        *self.signatures.entry(sig.clone()).or_insert(0) += 1;
        let size = as_obj(&case["file"]).len() + as_obj(&case["cli"]).len();
        let smaller = self.examples.get(&sig).map(|(s, _)| size < *s).unwrap_or(true);
        if smaller && (self.examples.len() < 200 || self.examples.contains_key(&sig)) {
            self.examples.insert(
                sig,
                (size, json!({"line": line, "fam": case["fam"], "ctx": case["ctx"],
                              "prog": case.get("prog").cloned().unwrap_or(json!(DAEMON)), "file": case["file"],
                              "cli": case["cli"], "exp": case["exp"], "differs": differs, "got": got})),
            );
        }
    }

    /// The examples, most frequent signature first.
    fn first(&self) -> Vec<Value> {
        let mut v: Vec<(&String, &(usize, Value))> = self.examples.iter().collect();
        v.sort_by_key(|(sig, _)| std::cmp::Reverse(self.signatures[*sig]));
        v.into_iter().take(60).map(|(_, (_, e))| e.clone()).collect()
    }
}

/// option -> the default its help text mentions, for the options that mention one
fn help_defaults(mut app: structopt::clap::App, meta: &Meta) -> Value {
    let mut buf = Vec::new();
    let _ = app.write_long_help(&mut buf);
    let text = String::from_utf8_lossy(&buf).to_string();
    let mut out = Map::new();
    for (o, m) in &meta.opts {
        if m.cli.is_empty() {
            continue;
        }
        let needle = format!("--{} ", m.cli);
        if let Some(p) = text.find(&needle) {
            let rest = &text[p + needle.len()..];
            let end = rest.find("\n        --").or_else(|| rest.find("\n    --")).unwrap_or(rest.len());
            let seg = &rest[..end];
            if let Some(d) = seg.find("[default: ") {
                if let Some(e) = seg[d..].find(']') {
                    out.insert(o.clone(), json!(seg[d + "[default: ".len()..d + e].trim()));
                }
            }
        }
    }
    Value::Object(out)
}

fn mode_cases(meta_path: &str, cases_path: &str, workdir: &str) {
    let meta = load_meta(meta_path);
    let dir = abs(workdir).join("inproc");
    std::fs::create_dir_all(&dir).unwrap();
    let mut t = Tally::new();
    let mut ready = 0u64;

    // documented defaults against Config::default()
    let dflt = serde_json::to_value(Config::default()).unwrap();
    let mut default_diffs = Vec::new();
    for (o, v) in &meta.defaults {
        if dflt.get(o) != Some(v) {
            default_diffs.push(json!({"option": o, "documented": v, "code": dflt.get(o)}));
        }
    }
    let td = cli_config::Config::default();
    let tool_dflt = json!({"rpc_bind": td.rpc_bind, "rpc_port": td.rpc_port});
    for (o, v) in &meta.tool_defaults {
        if tool_dflt.get(o) != Some(v) {
            default_diffs.push(json!({"option": format!("teos-cli:{o}"), "documented": v, "code": tool_dflt.get(o)}));
        }
    }
    // informational: the "[default: X]" remarks of `teosd -h` / `teos-cli -h`
    let help_defaults = json!({"teosd": help_defaults(Opt::clap(), &meta), "teos-cli": help_defaults(cli_config::Opt::clap(), &meta)});
    let unmodelled: Vec<String> = as_obj(&dflt).keys().filter(|k| !meta.opts.contains_key(*k)).cloned().collect();

    let f = BufReader::new(std::fs::File::open(cases_path).expect("cannot open cases"));
    for (i, line) in f.lines().enumerate() {
        let line = line.unwrap();
        if line.trim().is_empty() {
            continue;
        }
        let case: Value = serde_json::from_str(&line).expect("bad case line");
        let file = as_obj(&case["file"]);
        let cli = as_obj(&case["cli"]);
        t.cases += 1;
        let prog = case["prog"].as_str().unwrap_or(DAEMON);
        match run_inproc(prog, &dir, &file, &cli, &meta) {
            Outcome::Done(run) => {
                match run.verdict {
                    "running" => t.running += 1,
                    "refused" => t.refused += 1,
                    _ => ready += 1,
                }
                let (bad, n) = compare(&case["exp"], &run);
                t.comparisons += n;
                if !bad.is_empty() {
                    t.record(i + 1, &case, bad, json!({"patched": run.patched, "verdict": run.verdict,
                                                        "reason": run.reason, "final": run.fin}));
                }
            }
            Outcome::CliRejected(m) => t.record(i + 1, &case, vec!["abort:cli-rejected".into()], json!({"message": m})),
            Outcome::Panic(m) => t.record(i + 1, &case, vec!["abort:panic".into()], json!({"message": m})),
        }
    }
    println!(
        "{}",
        json!({"cases": t.cases, "comparisons": t.comparisons, "running": t.running, "refused": t.refused,
               "tool_ready": ready,
               "mismatching_cases": t.bad_cases, "signatures": t.signatures, "first": t.first(),
               "default_diffs": default_diffs, "unmodelled_fields": unmodelled, "help_defaults": help_defaults})
    );
}

// ---------------------------------------------------------------------------------------------------------------
// random sources (impl -> spec)

fn rand_word(rng: &mut StdRng, prefix: &str) -> String {
    let n = rng.gen_range(1..=8);
    let mut s = String::from(prefix);
    for _ in 0..n {
        s.push((b'a' + rng.gen_range(0..26u8)) as char);
    }
    s
}

fn rand_value(rng: &mut StdRng, opt: &str, kind: &str, meta: &Meta) -> Value {
    match kind {
        "str" if opt == NET_OPT => {
            if rng.gen::<f64>() < 0.8 {
                json!(meta.known[rng.gen_range(0..meta.known.len())])
            } else {
                json!(meta.unknown[rng.gen_range(0..meta.unknown.len())])
            }
        }
        "str" => json!(rand_word(rng, "v")),
        "u16" => json!(rng.gen_range(1..=65535u32)),
        "u32" => json!(rng.gen_range(1..=2_000_000_000u32)), // TLC integers are 32-bit signed
        "flag" | "oneshot" => json!(rng.gen::<bool>()),
        k => panic!("unknown kind {k}"),
    }
}

fn mode_random(meta_path: &str, n: usize, seed: u64, out: &str, workdir: &str) {
    let meta = load_meta(meta_path);
    let dir = abs(workdir).join("random");
    std::fs::create_dir_all(&dir).unwrap();
    let mut rng = StdRng::seed_from_u64(seed);
    let mut tw = TraceWriter::create(out);
    let creds = ["btc_rpc_user", "btc_rpc_password", "btc_rpc_cookie"];
    let (mut running, mut refused, mut ready, mut aborts) = (0u64, 0u64, 0u64, 0u64);
    for _ in 0..n {
        let mut file = Map::new();
        let mut cli = Map::new();
        // one case in eight is a start of teos-cli (same kind of file; its own, smaller command line)
        let prog = if rng.gen_range(0..8) == 0 { "teos-cli" } else { DAEMON };
        // how densely the sources are populated varies from case to case
        let pf: f64 = [0.1, 0.5, 0.9][rng.gen_range(0..3)];
        let pc: f64 = [0.1, 0.5, 0.9][rng.gen_range(0..3)];
        for (o, m) in &meta.opts {
            if creds.contains(&o.as_str()) {
                continue;
            }
            if rng.gen::<f64>() < pf {
                file.insert(o.clone(), rand_value(&mut rng, o, &m.kind, &meta));
            }
            let on_cli = if prog == DAEMON { !m.cli.is_empty() } else { meta.tool_opts.contains(o) };
            if on_cli && rng.gen::<f64>() < pc {
                let v = if m.kind == "flag" || m.kind == "oneshot" { json!(true) } else { rand_value(&mut rng, o, &m.kind, &meta) };
                cli.insert(o.clone(), v);
            }
        }
        // credentials: half of the cases are steered towards exactly one method spread over the two sources,
        // the other half is unconstrained
        if rng.gen::<bool>() {
            let fields: &[&str] = if rng.gen::<bool>() { &creds[0..2] } else { &creds[2..3] };
            for o in fields {
                let w = rng.gen_range(0..3);
                if w != 1 {
                    file.insert((*o).to_owned(), json!(rand_word(&mut rng, "f")));
                }
                if w != 0 && prog == DAEMON {
                    cli.insert((*o).to_owned(), json!(rand_word(&mut rng, "c")));
                }
            }
        } else {
            for o in creds {
                if rng.gen::<f64>() < 0.3 {
                    file.insert(o.to_owned(), json!(rand_word(&mut rng, "f")));
                }
                if rng.gen::<f64>() < 0.3 && prog == DAEMON {
                    cli.insert(o.to_owned(), json!(rand_word(&mut rng, "c")));
                }
            }
        }
        match record(&mut tw, prog, run_inproc(prog, &dir, &file, &cli, &meta), &file, &cli, &meta) {
            "running" => running += 1,
            "refused" => refused += 1,
            "ready" => ready += 1,
            _ => aborts += 1,
        }
    }
    let events = tw.finish();
    println!(
        "{}",
        json!({"events": events, "running": running, "refused": refused, "tool_ready": ready, "aborts": aborts, "out": out})
    );
}

/// Writes what the code did with one pair of sources as an event for Trace_Config.tla.
fn record(
    tw: &mut TraceWriter,
    prog: &str,
    o: Outcome,
    file: &Map<String, Value>,
    cli: &Map<String, Value>,
    meta: &Meta,
) -> &'static str {
    match o {
        Outcome::Done(run) => {
            // only the options the specification knows are recorded (others are reported by `cases`)
            let proj = |v: &Value| -> Value {
                Value::Object(as_obj(v).into_iter().filter(|(k, _)| meta.opts.contains_key(k)).collect())
            };
            tw.emit(&json!({"ev": "case", "prog": prog, "file": file, "cli": cli,
                            "obs": {"patched": proj(&run.patched), "verdict": run.verdict, "reason": run.reason,
                                    "final": proj(&run.fin)}}));
            run.verdict
        }
        Outcome::CliRejected(m) => {
            tw.emit(&json!({"ev": "abort", "what": "cli-rejected", "message": m, "prog": prog, "file": file, "cli": cli}));
            "abort"
        }
        Outcome::Panic(m) => {
            tw.emit(&json!({"ev": "abort", "what": "panic", "message": m, "prog": prog, "file": file, "cli": cli}));
            "abort"
        }
    }
}

fn mode_rerun(meta_path: &str, input: &str, out: &str, workdir: &str) {
    let meta = load_meta(meta_path);
    let dir = abs(workdir).join("rerun");
    std::fs::create_dir_all(&dir).unwrap();
    let mut tw = TraceWriter::create(out);
    let (mut running, mut refused, mut aborts) = (0u64, 0u64, 0u64);
    for line in BufReader::new(std::fs::File::open(input).expect("cannot open input")).lines() {
        let line = line.unwrap();
        if line.trim().is_empty() {
            continue;
        }
        let v: Value = serde_json::from_str(&line).expect("bad input line");
        if v.get("file").is_none() || v.get("cli").is_none() {
            continue;
        }
        let file = as_obj(&v["file"]);
        let cli = as_obj(&v["cli"]);
        let prog = v.get("prog").and_then(|p| p.as_str()).unwrap_or(DAEMON);
        let o = match v.get("file_text").and_then(|t| t.as_str()) {
            Some(t) => run_inproc_text(prog, &dir, t, &cli, &meta),
            None => run_inproc(prog, &dir, &file, &cli, &meta),
        };
        match record(&mut tw, prog, o, &file, &cli, &meta) {
            "running" => running += 1,
            "refused" => refused += 1,
            "ready" => {}
            _ => aborts += 1,
        }
    }
    let events = tw.finish();
    println!("{}", json!({"events": events, "running": running, "refused": refused, "aborts": aborts, "out": out}));
}

// ---------------------------------------------------------------------------------------------------------------
// the real binary

struct Conn {
    ip: IpAddr,
    port: u16,
    authorization: Option<String>,
}

fn b64(data: &[u8]) -> String {
    const T: &[u8; 64] = b"ABCDEFGHIJKLMNOPQRSTUVWXYZabcdefghijklmnopqrstuvwxyz0123456789+/";
    let mut s = String::new();
    for c in data.chunks(3) {
        let b = [c[0], *c.get(1).unwrap_or(&0), *c.get(2).unwrap_or(&0)];
        let n = ((b[0] as u32) << 16) | ((b[1] as u32) << 8) | b[2] as u32;
        s.push(T[(n >> 18) as usize & 63] as char);
        s.push(T[(n >> 12) as usize & 63] as char);
        s.push(if c.len() > 1 { T[(n >> 6) as usize & 63] as char } else { '=' });
        s.push(if c.len() > 2 { T[n as usize & 63] as char } else { '=' });
    }
    s
}

/// Reads one HTTP request, reports it, then answers like a bitcoind on a chain no tower is configured for (so that the
/// daemon gives up right after its first call).
fn serve(mut s: TcpStream, local: SocketAddr, tx: &Sender<Conn>) {
    let _ = s.set_read_timeout(Some(Duration::from_secs(3)));
    let mut buf = Vec::new();
    let mut tmp = [0u8; 4096];
    let mut need: Option<usize> = None;
    loop {
        match s.read(&mut tmp) {
            Ok(0) | Err(_) => break,
            Ok(k) => buf.extend_from_slice(&tmp[..k]),
        }
        if let Some(p) = buf.windows(4).position(|w| w == b"\r\n\r\n") {
            let head = String::from_utf8_lossy(&buf[..p]).to_lowercase();
            let cl = head
                .lines()
                .find_map(|l| l.strip_prefix("content-length:").map(|v| v.trim().parse::<usize>().unwrap_or(0)))
                .unwrap_or(0);
            need = Some(p + 4 + cl);
        }
        if let Some(nd) = need {
            if buf.len() >= nd {
                break;
            }
        }
    }
    let head = String::from_utf8_lossy(&buf).to_string();
    let authorization = head
        .lines()
        .find(|l| l.to_lowercase().starts_with("authorization:"))
        .map(|l| l.splitn(2, ':').nth(1).unwrap().trim().to_owned());
    let _ = tx.send(Conn { ip: local.ip(), port: local.port(), authorization });
    let body = r#"{"result":{"chain":"c20probe","blocks":0,"headers":0,"bestblockhash":"0000000000000000000000000000000000000000000000000000000000000000"},"error":null,"id":1}"#;
    let _ = s.write_all(
        format!("HTTP/1.1 200 OK\r\nContent-Type: application/json\r\nContent-Length: {}\r\nConnection: close\r\n\r\n{}", body.len(), body)
            .as_bytes(),
    );
    let _ = s.flush();
}

/// `http`: answer like a bitcoind (see `serve`); otherwise the connection is only reported and closed.
fn listen(addr: SocketAddr, tx: Sender<Conn>, http: bool) -> bool {
    match TcpListener::bind(addr) {
        Ok(l) => {
            std::thread::spawn(move || {
                for s in l.incoming().flatten() {
                    if http {
                        serve(s, addr, &tx);
                    } else {
                        let _ = tx.send(Conn { ip: addr.ip(), port: addr.port(), authorization: None });
                    }
                }
            });
            true
        }
        Err(_) => false,
    }
}

struct BinRun {
    exit: Option<i32>,
    hung: bool,
    out: String,
    conns: Vec<Conn>,
}

fn run_bin(bin: &str, dir: &Path, args: &[String], rx: &Receiver<Conn>, suffix: &str, foreign_seen: &mut u64) -> BinRun {
    while rx.try_recv().is_ok() {}
    let mut child = Command::new(bin)
        .args(&args[1..])
        .current_dir(dir)
        .env("HOME", dir)
        .env_remove("RUST_LOG")
        .stdin(Stdio::null())
        .stdout(Stdio::piped())
        .stderr(Stdio::piped())
        .spawn()
        .expect("cannot start teosd");
    let mut so = child.stdout.take().unwrap();
    let mut se = child.stderr.take().unwrap();
    let h1 = std::thread::spawn(move || {
        let mut s = String::new();
        let _ = so.read_to_string(&mut s);
        s
    });
    let h2 = std::thread::spawn(move || {
        let mut s = String::new();
        let _ = se.read_to_string(&mut s);
        s
    });
    let t0 = Instant::now();
    let mut hung = false;
    let status = loop {
        match child.try_wait().unwrap() {
            Some(st) => break Some(st),
            None if t0.elapsed() > Duration::from_secs(20) => {
                hung = true;
                let _ = child.kill();
                let _ = child.wait();
                break None;
            }
            None => std::thread::sleep(Duration::from_millis(2)),
        }
    };
    let out = h1.join().unwrap() + &h2.join().unwrap();
    let mut conns = Vec::new();
    while let Ok(c) = rx.try_recv() {
        if foreign(&c, suffix) {
            *foreign_seen += 1;
        } else {
            conns.push(c);
        }
    }
    BinRun { exit: status.and_then(|s| s.code()), hung, out, conns }
}

fn unb64(text: &str) -> Option<Vec<u8>> {
    let mut out = Vec::new();
    let (mut acc, mut bits) = (0u32, 0u32);
    for ch in text.bytes() {
        let v = match ch {
            b'A'..=b'Z' => ch - b'A',
            b'a'..=b'z' => ch - b'a' + 26,
            b'0'..=b'9' => ch - b'0' + 52,
            b'+' => 62,
            b'/' => 63,
            b'=' => break,
            _ => return None,
        };
        acc = (acc << 6) | v as u32;
        bits += 6;
        if bits >= 8 {
            bits -= 8;
            out.push((acc >> bits) as u8);
            acc &= (1 << bits) - 1;
        }
    }
    Some(out)
}

/// Marker every credential value of this run of the rig ends with.  The loopback ports are shared by the whole
/// machine: a connection whose credentials carry the marker of ANOTHER run of this rig is not ours and is ignored.
const MARK: &str = ".c20run-";

fn mark_credentials(m: &mut Map<String, Value>, suffix: &str) {
    for k in ["btc_rpc_user", "btc_rpc_password", "btc_rpc_cookie"] {
        if let Some(Value::String(v)) = m.get(k) {
            if !v.is_empty() {
                let marked = format!("{v}{suffix}");
                m.insert(k.to_owned(), Value::String(marked));
            }
        }
    }
}

fn foreign(c: &Conn, suffix: &str) -> bool {
    let text = c
        .authorization
        .as_deref()
        .and_then(|a| a.strip_prefix("Basic "))
        .and_then(unb64)
        .map(|b| String::from_utf8_lossy(&b).to_string())
        .unwrap_or_default();
    text.contains(MARK) && !text.contains(suffix)
}

fn cookie_content(name: &str) -> String {
    format!("{name}-user:{name}-pass")
}

fn mode_teosd(bin: &str, meta_path: &str, cases_path: &str, workdir: &str) {
    let meta = load_meta(meta_path);
    let root = abs(workdir).join("bin");
    let _ = std::fs::remove_dir_all(&root);
    std::fs::create_dir_all(&root).unwrap();
    let cases: Vec<Value> = BufReader::new(std::fs::File::open(cases_path).expect("cannot open cases"))
        .lines()
        .map(|l| l.unwrap())
        .filter(|l| !l.trim().is_empty())
        .map(|l| serde_json::from_str(&l).expect("bad case line"))
        .collect();

    // every address / port the daemon could pick
    let mut hosts: BTreeSet<IpAddr> = ["127.0.0.1", "::1"].iter().map(|h| h.parse().unwrap()).collect();
    let mut ports: BTreeSet<u16> = meta.net_default_port.values().map(|p| p.as_u64().unwrap() as u16).collect();
    for c in &cases {
        for src in ["file", "cli"] {
            let m = as_obj(&c[src]);
            if let Some(ip) = m.get("btc_rpc_connect").and_then(|h| h.as_str()).and_then(|h| h.parse::<IpAddr>().ok()) {
                hosts.insert(ip);
            }
            if let Some(p) = m.get(PORT_OPT).and_then(|p| p.as_u64()) {
                ports.insert(p as u16);
            }
        }
    }
    let (tx, rx) = channel::<Conn>();
    let mut bound: BTreeSet<SocketAddr> = BTreeSet::new();
    let mut unbound: Vec<String> = Vec::new();
    for h in &hosts {
        for p in &ports {
            let a = SocketAddr::new(*h, *p);
            if listen(a, tx.clone(), true) {
                bound.insert(a);
            } else {
                unbound.push(a.to_string());
            }
        }
    }

    let mut t = Tally::new();
    let mut unobservable = 0u64;
    let mut runs = 0u64;
    let mut log_values = 0u64;
    let mut foreign_seen = 0u64;
    let suffix = format!(
        "{MARK}{:x}-{:x}",
        std::process::id(),
        std::time::SystemTime::now().duration_since(std::time::UNIX_EPOCH).map(|d| d.subsec_nanos()).unwrap_or(0)
    );
    for (i, case) in cases.iter().enumerate() {
        // concretisation: the credential values of the case, made unique to this run (see MARK)
        let mut file = as_obj(&case["file"]);
        let mut cli = as_obj(&case["cli"]);
        let exp = &case["exp"];
        let mut settings = as_obj(&exp["settings"]);
        mark_credentials(&mut file, &suffix);
        mark_credentials(&mut cli, &suffix);
        mark_credentials(&mut settings, &suffix);
        let dir = root.join(format!("c{i}"));
        std::fs::create_dir_all(&dir).unwrap();
        write_conf_file(&dir, &toml_text(&file));
        let mut ours: BTreeSet<String> = ["teos.toml".to_owned()].into_iter().collect();
        for src in [&file, &cli] {
            if let Some(name) = src.get("btc_rpc_cookie").and_then(|c| c.as_str()) {
                std::fs::write(dir.join(name), cookie_content(name)).unwrap();
                ours.insert(name.to_owned());
            }
        }
        let args = cli_args(DAEMON, &cli, &meta, &dir);
        t.cases += 1;
        let accept = exp["accept"].as_bool().unwrap();
        // Where an accepted configuration makes the daemon look for bitcoind.  The observation needs a listener on
        // every address the name can stand for (a port in the ephemeral range - signet's default is - may be taken
        // by somebody's outgoing connection for a moment: one more attempt to bind it now, else the case is counted
        // as unobservable, never as a disagreement).
        let mut observable = true;
        if accept {
            let host = settings["btc_rpc_connect"].as_str().unwrap();
            let ips: Vec<IpAddr> = if host == "localhost" {
                vec!["127.0.0.1".parse().unwrap(), "::1".parse().unwrap()]
            } else {
                vec![host.parse().expect("cases for the binary use IP literals or localhost")]
            };
            for ip in ips {
                let a = SocketAddr::new(ip, exp["final_port"].as_u64().unwrap() as u16);
                if !bound.contains(&a) && listen(a, tx.clone(), true) {
                    bound.insert(a);
                    unbound.retain(|u| *u != a.to_string());
                }
                observable &= bound.contains(&a);
            }
        }
        let r1 = run_bin(bin, &dir, &args, &rx, &suffix, &mut foreign_seen);
        runs += 1;
        let mut bad: Vec<String> = Vec::new();
        let created = |dir: &Path| -> Vec<String> {
            let mut v: Vec<String> = std::fs::read_dir(dir)
                .unwrap()
                .map(|e| e.unwrap().file_name().to_string_lossy().to_string())
                .filter(|n| !ours.contains(n))
                .collect();
            v.sort();
            v
        };
        let made = created(&dir);
        let mut got = json!({"exit": r1.exit, "hung": r1.hung, "created": made,
                             "connections": r1.conns.iter().map(|c| json!({"ip": c.ip.to_string(), "port": c.port,
                                              "authorization": c.authorization})).collect::<Vec<_>>(),
                             "output_tail": r1.out.lines().rev().take(6).collect::<Vec<_>>()});
        // (when somebody else's server sits where the daemon has to look, what it does after connecting is not ours
        // to judge)
        if r1.hung && observable {
            bad.push("bin:hang".into());
        }
        if !accept {
            // refusal: non-zero exit status, before any contact with bitcoind and before anything is written
            t.refused += 1;
            t.comparisons += 3;
            if r1.exit == Some(0) {
                bad.push("bin:refusal-exit-status".into());
            }
            if !r1.conns.is_empty() {
                bad.push("bin:accepted-unsafe".into());
            }
            if !made.is_empty() {
                bad.push("bin:refused-but-wrote".into());
            }
        } else {
            t.running += 1;
            // where the daemon has to look for bitcoind
            let host = settings["btc_rpc_connect"].as_str().unwrap();
            let want_ips: Vec<IpAddr> = if host == "localhost" {
                vec!["127.0.0.1".parse().unwrap(), "::1".parse().unwrap()]
            } else {
                vec![host.parse().expect("cases for the binary use IP literals or localhost")]
            };
            let want_port = exp["final_port"].as_u64().unwrap() as u16;
            if r1.conns.is_empty() {
                if observable {
                    t.comparisons += 1;
                    bad.push("bin:no-connection".into());
                } else {
                    unobservable += 1;
                }
            } else {
                t.comparisons += 3;
                if r1.conns.iter().any(|c| c.port != want_port) {
                    bad.push(format!("bin:final:{PORT_OPT}"));
                }
                if r1.conns.iter().any(|c| !want_ips.contains(&c.ip)) {
                    bad.push("bin:final:btc_rpc_connect".into());
                }
                let cookie = settings["btc_rpc_cookie"].as_str().unwrap();
                let want_auth = if cookie.is_empty() {
                    format!("{}:{}", settings["btc_rpc_user"].as_str().unwrap(), settings["btc_rpc_password"].as_str().unwrap())
                } else {
                    cookie_content(cookie)
                };
                let want_hdr = format!("Basic {}", b64(want_auth.as_bytes()));
                if r1.conns.iter().any(|c| c.authorization.as_deref() != Some(want_hdr.as_str())) {
                    bad.push("bin:final:credentials".into());
                }
            }
            // the data directory of the selected network, and nothing else
            t.comparisons += 1;
            let names = strs(&exp["final_network"]);
            if !(made.len() == 1 && names.contains(&made[0])) {
                bad.push(format!("bin:final:{NET_OPT}"));
            }
            // the daemon's own report of non-default settings (only compared where it is printed)
            for l in r1.out.lines() {
                if let Some(p) = l.find("Custom config arg: ") {
                    let rest = &l[p + "Custom config arg: ".len()..];
                    if let Some((k, v)) = rest.split_once(": ") {
                        if v.trim() == "****" {
                            continue;
                        }
                        if let Ok(val) = serde_json::from_str::<Value>(v.trim()) {
                            let ok = if k == NET_OPT {
                                val.as_str().map(|x| names.iter().any(|y| y == x)).unwrap_or(false)
                            } else if k == PORT_OPT {
                                val == exp["final_port"]
                            } else if let Some(e) = settings.get(k) {
                                &val == e
                            } else {
                                true
                            };
                            log_values += 1;
                            t.comparisons += 1;
                            if !ok {
                                bad.push(format!("bin:report:{k}"));
                            }
                        }
                    }
                }
            }
            // second start on the same data directory: a second tower key appears iff overwrite_key is in effect
            if made.len() == 1 && !r1.hung && observable {
                let r2 = run_bin(bin, &dir, &args, &rx, &suffix, &mut foreign_seen);
                runs += 1;
                let db = dir.join(&made[0]).join("teos_db.sql3");
                let keys: Option<i64> = rusqlite::Connection::open_with_flags(&db, rusqlite::OpenFlags::SQLITE_OPEN_READ_ONLY)
                    .ok()
                    .and_then(|c| c.query_row("SELECT COUNT(*) FROM keys", [], |r| r.get(0)).ok());
                got["keys_after_two_starts"] = json!(keys);
                got["second_exit"] = json!(r2.exit);
                if let Some(k) = keys {
                    t.comparisons += 1;
                    let want = if settings["overwrite_key"].as_bool().unwrap() { 2 } else { 1 };
                    if k != want {
                        bad.push("bin:final:overwrite_key".into());
                    }
                }
            }
        }
        if !bad.is_empty() {
            bad.sort();
            bad.dedup();
            t.record(i + 1, case, bad, got);
        } else {
            let _ = std::fs::remove_dir_all(&dir);
        }
    }
    println!(
        "{}",
        json!({"cases": t.cases, "comparisons": t.comparisons, "running": t.running, "refused": t.refused,
               "mismatching_cases": t.bad_cases, "signatures": t.signatures, "first": t.first(),
               "process_runs": runs, "unobservable": unobservable, "unbound": unbound, "listeners": bound.len(),
               "reported_values_compared": log_values, "foreign_connections_ignored": foreign_seen})
    );
}

/// teos-cli on the real binary (cli.rs: Opt::from_args, from_file, patch_with_options, then the connection to the tower).
fn mode_toolbin(bin: &str, meta_path: &str, cases_path: &str, workdir: &str) {
    let meta = load_meta(meta_path);
    let root = abs(workdir).join("toolbin");
    let _ = std::fs::remove_dir_all(&root);
    std::fs::create_dir_all(&root).unwrap();
    // the certificates the tool reads from its data directory before it connects: made by the tower's own generator
    let pems = root.join("pems");
    std::fs::create_dir_all(&pems).unwrap();
    teos::tls::tls_init(&pems).expect("cannot generate certificates");
    let cases: Vec<Value> = BufReader::new(std::fs::File::open(cases_path).expect("cannot open cases"))
        .lines()
        .map(|l| l.unwrap())
        .filter(|l| !l.trim().is_empty())
        .map(|l| serde_json::from_str::<Value>(&l).expect("bad case line"))
        .filter(|c| c["prog"].as_str() == Some("teos-cli"))
        .collect();
    let mut hosts: BTreeSet<IpAddr> = ["127.0.0.1", "::1"].iter().map(|h| h.parse().unwrap()).collect();
    let mut ports: BTreeSet<u16> = meta.tool_defaults.get("rpc_port").and_then(|p| p.as_u64()).map(|p| p as u16).into_iter().collect();
    for c in &cases {
        for src in ["file", "cli"] {
            let m = as_obj(&c[src]);
            if let Some(ip) = m.get("rpc_bind").and_then(|h| h.as_str()).and_then(|h| h.parse::<IpAddr>().ok()) {
                hosts.insert(ip);
            }
            if let Some(p) = m.get("rpc_port").and_then(|p| p.as_u64()) {
                ports.insert(p as u16);
            }
        }
    }
    let (tx, rx) = channel::<Conn>();
    let mut bound: BTreeSet<SocketAddr> = BTreeSet::new();
    let mut unbound: Vec<String> = Vec::new();
    for h in &hosts {
        for p in &ports {
            let a = SocketAddr::new(*h, *p);
            if listen(a, tx.clone(), false) {
                bound.insert(a);
            } else {
                unbound.push(a.to_string());
            }
        }
    }
    let mut t = Tally::new();
    let mut unobservable = 0u64;
    let mut ignored = 0u64;
    for (i, case) in cases.iter().enumerate() {
        let file = as_obj(&case["file"]);
        let cli = as_obj(&case["cli"]);
        let settings = as_obj(&case["exp"]["settings"]);
        let dir = root.join(format!("c{i}"));
        std::fs::create_dir_all(&dir).unwrap();
        write_conf_file(&dir, &toml_text(&file));
        for f in ["ca.pem", "client.pem", "client-key.pem"] {
            std::fs::copy(pems.join(f), dir.join(f)).expect("cannot copy certificate");
        }
        let args = cli_args("teos-cli", &cli, &meta, &dir);
        t.cases += 1;
        let host = settings["rpc_bind"].as_str().unwrap();
        let want_ips: Vec<IpAddr> = if host == "localhost" {
            vec!["127.0.0.1".parse().unwrap(), "::1".parse().unwrap()]
        } else {
            vec![host.parse().expect("cases for the binary use IP literals or localhost")]
        };
        let want_port = settings["rpc_port"].as_u64().unwrap() as u16;
        let mut observable = true;
        for ip in &want_ips {
            let a = SocketAddr::new(*ip, want_port);
            if !bound.contains(&a) && listen(a, tx.clone(), false) {
                bound.insert(a);
                unbound.retain(|u| *u != a.to_string());
            }
            observable &= bound.contains(&a);
        }
        let r = run_bin(bin, &dir, &args, &rx, "", &mut ignored);
        let mut bad: Vec<String> = Vec::new();
        if r.hung && observable {
            bad.push("toolbin:hang".into());
        }
        if !observable {
            unobservable += 1;
        } else {
            // the tool connects once: the tower's address it was configured with must see that connection
            // (connections elsewhere may be somebody else's on this machine and are only used to say what differs)
            t.comparisons += 2;
            if !r.conns.iter().any(|c| want_ips.contains(&c.ip) && c.port == want_port) {
                if r.conns.is_empty() {
                    bad.push("toolbin:no-connection".into());
                } else {
                    if r.conns.iter().all(|c| !want_ips.contains(&c.ip)) {
                        bad.push("toolbin:final:rpc_bind".into());
                    }
                    if r.conns.iter().all(|c| c.port != want_port) {
                        bad.push("toolbin:final:rpc_port".into());
                    }
                    if bad.is_empty() {
                        bad.push("toolbin:final:rpc_bind+rpc_port".into());
                    }
                }
            }
        }
        if !bad.is_empty() {
            let got = json!({"exit": r.exit, "hung": r.hung,
                             "connections": r.conns.iter().map(|c| json!({"ip": c.ip.to_string(), "port": c.port})).collect::<Vec<_>>(),
                             "output_tail": r.out.lines().rev().take(4).collect::<Vec<_>>()});
            t.record(i + 1, case, bad, got);
        } else {
            let _ = std::fs::remove_dir_all(&dir);
        }
    }
    println!(
        "{}",
        json!({"cases": t.cases, "comparisons": t.comparisons, "mismatching_cases": t.bad_cases, "signatures": t.signatures,
               "first": t.first(), "unobservable": unobservable, "unbound": unbound, "listeners": bound.len()})
    );
}

fn main() {
    let args: Vec<String> = std::env::args().collect();
    // panics of the code under test are reported as data
    let default_hook = std::panic::take_hook();
    std::panic::set_hook(Box::new(move |info| {
        if !IN_SUT.load(Ordering::SeqCst) {
            default_hook(info);
        }
    }));
    match args.get(1).map(|s| s.as_str()) {
        Some("cases") if args.len() == 5 => mode_cases(&args[2], &args[3], &args[4]),
        Some("random") if args.len() == 7 => {
            mode_random(&args[2], args[3].parse().unwrap(), args[4].parse().unwrap(), &args[5], &args[6])
        }
        Some("rerun") if args.len() == 6 => mode_rerun(&args[2], &args[3], &args[4], &args[5]),
        Some("toolbin") if args.len() == 6 => mode_toolbin(&args[2], &args[3], &args[4], &args[5]),
        Some("teosd") if args.len() == 6 => mode_teosd(&args[2], &args[3], &args[4], &args[5]),
        _ => {
            eprintln!(
                "usage: cfg_rig cases <meta> <cases> <workdir> | random <meta> <n> <seed> <out> <workdir> | rerun <meta> <in> <out> <workdir> | teosd <bin> <meta> <cases> <workdir> | toolbin <bin> <meta> <cases> <workdir>"
            );
            std::process::exit(2);
        }
    }
}
