//! Simulated bitcoind (DESIGN.md Appendix C): active chain of real PoW-valid blocks, stale blocks, mempool,
//! policy rejections, scripted verdicts and faults, RPC log.  Exposed to the tower as
//!   - a `jsonrpc::client::Transport` (what `Carrier` uses through `bitcoincore_rpc::Client`), and
//!   - a `lightning_block_sync::BlockSource` (what `SpvClient` / `ChainPoller` use).

use std::collections::{HashMap, HashSet, VecDeque};
use std::fmt;
use std::sync::{Arc, Mutex};

use bitcoin::block::Block;
use bitcoin::consensus;
use bitcoin::hashes::Hash;
use bitcoin::pow::Work;
use bitcoin::{BlockHash, Transaction, Txid};
use bitcoincore_rpc::jsonrpc;
use lightning_block_sync::{AsyncBlockSourceResult, BlockData, BlockHeaderData, BlockSource, BlockSourceError};
use serde_json::json;
use serde_json::value::RawValue;

use crate::chain::{genesis, make_block};

#[derive(Clone, Debug, PartialEq, Eq)]
pub enum Verdict {
    Ok,
    /// RPC error with this code
    Code(i32),
    /// transport failure
    Err,
}

impl Verdict {
    pub fn class(&self) -> &'static str {
        match self {
            Verdict::Ok => "ok",
            Verdict::Code(-27) => "res",
            Verdict::Code(_) => "rej",
            Verdict::Err => "err",
        }
    }
}

#[derive(Clone, Debug)]
pub struct RpcLogEntry {
    pub method: &'static str, // "send" | "get"
    pub txid: Txid,
    pub verdict: String, // send: ok|rej|res|err ; get: mem|no|err
    pub code: i32,
    /// the thread that made the call, and whether the entry was already attributed to a trace event
    pub tid: std::thread::ThreadId,
    pub taken: bool,
}

#[derive(Default, Clone)]
pub struct Faults {
    /// transport errors for the RPC calls (send/get) whose global index is in this set
    pub rpc_fail_at: HashSet<usize>,
    /// fail this many upcoming get_block calls for a hash (transient = true / persistent = false)
    pub block_fail: HashMap<BlockHash, (usize, bool)>,
    /// fail this many upcoming get_header calls
    pub header_fail: usize,
    /// fail this many upcoming get_best_block calls (transient)
    pub best_fail: usize,
    /// answer this many more transaction RPCs, then take the RPC interface down (rpc_up = false)
    pub rpc_down_after: Option<usize>,
    /// answer the transaction RPCs with these global indices with a bare HTTP 503 (bitcoind overloaded: "Work queue depth exceeded")
    pub rpc_http503_at: HashSet<usize>,
    /// odd answers to the next getrawtransaction calls: Some(code) = that JSON-RPC error code, None = a result that is not
    /// what the method returns (a bare string).  Neither says the node has the transaction.
    pub get_odd: VecDeque<Option<i32>>,
}

#[derive(Clone)]
pub struct NodeState {
    /// active chain, index = height (genesis at 0)
    pub chain: Vec<Block>,
    /// every block ever produced (active or stale) with its height
    pub known: HashMap<BlockHash, (Block, u32)>,
    pub mempool: Vec<Transaction>,
    /// spend relation: child txid -> parent txid (penalties spend their dispute)
    pub parent: HashMap<Txid, Txid>,
    pub policy_reject: HashMap<Txid, i32>,
    /// scripted verdicts for sendrawtransaction of a txid, consumed first
    pub scripted: HashMap<Txid, VecDeque<Verdict>>,
    pub up: bool,
    /// the transaction RPC interface alone can be down (the node stopped answering after it served the blocks)
    pub rpc_up: bool,
    pub faults: Faults,
    pub rpc_log: Vec<RpcLogEntry>,
    pub rpc_calls: usize,
    pub salt: u64,
}

pub type Node = Arc<Mutex<NodeState>>;

impl NodeState {
    pub fn new() -> Self {
        let g = genesis();
        let mut known = HashMap::new();
        known.insert(g.block_hash(), (g.clone(), 0));
        NodeState {
            chain: vec![g],
            known,
            mempool: Vec::new(),
            parent: HashMap::new(),
            policy_reject: HashMap::new(),
            scripted: HashMap::new(),
            up: true,
            rpc_up: true,
            faults: Faults::default(),
            rpc_log: Vec::new(),
            rpc_calls: 0,
            salt: 0,
        }
    }

    pub fn height(&self) -> u32 {
        (self.chain.len() - 1) as u32
    }

    pub fn tip(&self) -> &Block {
        self.chain.last().unwrap()
    }

    pub fn on_chain(&self, txid: &Txid) -> Option<u32> {
        for (h, b) in self.chain.iter().enumerate().rev() {
            if b.txdata.iter().any(|t| t.compute_txid() == *txid) {
                return Some(h as u32);
            }
        }
        None
    }

    pub fn in_mempool(&self, txid: &Txid) -> bool {
        self.mempool.iter().any(|t| t.compute_txid() == *txid)
    }

    /// A transaction on chain or in the mempool that spends the same parent as `txid` (and is not `txid`).
    fn conflict(&self, txid: &Txid) -> (bool, bool) {
        let p = match self.parent.get(txid) {
            Some(p) => *p,
            None => return (false, false),
        };
        let siblings: Vec<Txid> = self
            .parent
            .iter()
            .filter(|(c, par)| **par == p && **c != *txid)
            .map(|(c, _)| *c)
            .collect();
        let on_chain = siblings.iter().any(|s| self.on_chain(s).is_some());
        let in_pool = siblings.iter().any(|s| self.in_mempool(s));
        (on_chain, in_pool)
    }

    /// Mines one block on the active tip with the given transactions (mempool entries included are removed,
    /// mempool transactions conflicting with them are evicted).
    pub fn mine(&mut self, txs: Vec<Transaction>) -> Block {
        self.salt += 1;
        let b = make_block(&self.tip().header, self.salt, txs.clone());
        let ids: HashSet<Txid> = txs.iter().map(|t| t.compute_txid()).collect();
        self.mempool.retain(|t| !ids.contains(&t.compute_txid()));
        // evict conflicting mempool transactions
        let parents: HashSet<Txid> = ids.iter().filter_map(|i| self.parent.get(i).cloned()).collect();
        let par = self.parent.clone();
        self.mempool
            .retain(|t| !par.get(&t.compute_txid()).map(|p| parents.contains(p)).unwrap_or(false));
        self.known.insert(b.block_hash(), (b.clone(), self.chain.len() as u32));
        self.chain.push(b.clone());
        b
    }

    /// Disconnects the `depth` newest blocks; their (non-filler) transactions return to the mempool when
    /// `to_mempool` is set.
    pub fn disconnect(&mut self, depth: usize, to_mempool: bool) -> Vec<Block> {
        let mut out = Vec::new();
        for _ in 0..depth {
            if self.chain.len() <= 1 {
                break;
            }
            let b = self.chain.pop().unwrap();
            if to_mempool {
                for t in b.txdata.iter().skip(1) {
                    if !self.in_mempool(&t.compute_txid()) {
                        self.mempool.push(t.clone());
                    }
                }
            }
            out.push(b);
        }
        out
    }

    fn next_rpc_fails(&mut self) -> bool {
        let i = self.rpc_calls;
        self.rpc_calls += 1;
        if let Some(n) = self.faults.rpc_down_after {
            if n == 0 {
                self.faults.rpc_down_after = None;
                self.rpc_up = false;
            } else {
                self.faults.rpc_down_after = Some(n - 1);
            }
        }
        !self.up || !self.rpc_up || self.faults.rpc_fail_at.contains(&i)
    }

    pub fn send_raw_transaction(&mut self, tx: &Transaction) -> Verdict {
        let txid = tx.compute_txid();
        let v = if self.next_rpc_fails() {
            Verdict::Err
        } else if let Some(v) = self.scripted.get_mut(&txid).and_then(|q| q.pop_front()) {
            if v == Verdict::Ok && !self.in_mempool(&txid) {
                self.mempool.push(tx.clone());
            }
            v
        } else if self.on_chain(&txid).is_some() {
            Verdict::Code(-27)
        } else if self.in_mempool(&txid) {
            Verdict::Ok
        } else if let Some(code) = self.policy_reject.get(&txid) {
            Verdict::Code(*code)
        } else {
            let parent_ok = match self.parent.get(&txid) {
                Some(p) => self.on_chain(p).is_some() || self.in_mempool(p),
                None => true,
            };
            let (c_chain, c_pool) = self.conflict(&txid);
            if !parent_ok || c_chain {
                Verdict::Code(-25)
            } else if c_pool {
                Verdict::Code(-26)
            } else {
                self.mempool.push(tx.clone());
                Verdict::Ok
            }
        };
        let code = match &v {
            Verdict::Code(c) => *c,
            _ => 0,
        };
        self.rpc_log.push(RpcLogEntry { method: "send", txid, verdict: v.class().to_string(), code, tid: std::thread::current().id(), taken: false });
        v
    }

    /// getrawtransaction without txindex: Some(tx) iff in the mempool. Err(()) = transport failure.
    pub fn get_raw_transaction(&mut self, txid: &Txid) -> Result<Option<Transaction>, ()> {
        if self.next_rpc_fails() {
            self.rpc_log.push(RpcLogEntry { method: "get", txid: *txid, verdict: "err".into(), code: 0, tid: std::thread::current().id(), taken: false });
            return Err(());
        }
        let r = self.mempool.iter().find(|t| t.compute_txid() == *txid).cloned();
        self.rpc_log.push(RpcLogEntry {
            method: "get",
            txid: *txid,
            verdict: if r.is_some() { "mem".into() } else { "no".into() },
            code: 0,
            tid: std::thread::current().id(),
            taken: false,
        });
        Ok(r)
    }

    fn chainwork(height: u32) -> Work {
        let hb = (height as u64 + 1).to_be_bytes();
        let mut padded = [0u8; 32];
        padded[32 - hb.len()..].copy_from_slice(&hb);
        Work::from_be_bytes(padded)
    }
}

// ---------------------------------------------------------------------------------------------------
// jsonrpc transport

/// Threads (requests / polls running on their own thread while the node is away) that are HELD at their next node RPC that
/// would be answered, until the rig joins them.  Without it the moment a blocked thread resumes after the node is back races
/// with the rig's next snapshot (which event shows its effects depended on the machine's load).  An RPC that is going to
/// fail is never held: an outage must be noticed when it happens.
pub static HELD: Mutex<Option<std::collections::HashSet<std::thread::ThreadId>>> = Mutex::new(None);
/// threads currently running a spawned call
pub static INFLIGHT: Mutex<Option<std::collections::HashSet<std::thread::ThreadId>>> = Mutex::new(None);

pub fn inflight_enter() {
    INFLIGHT.lock().unwrap().get_or_insert_with(Default::default).insert(std::thread::current().id());
}

pub fn inflight_exit() {
    let id = std::thread::current().id();
    if let Some(s) = INFLIGHT.lock().unwrap().as_mut() {
        s.remove(&id);
    }
    if let Some(s) = HELD.lock().unwrap().as_mut() {
        s.remove(&id);
    }
}

/// the node is back: from now on every call that is in flight waits at its next answered RPC until it is joined
pub fn hold_inflight() {
    let cur = INFLIGHT.lock().unwrap().clone().unwrap_or_default();
    HELD.lock().unwrap().get_or_insert_with(Default::default).extend(cur);
}

pub fn release(id: std::thread::ThreadId) {
    if let Some(s) = HELD.lock().unwrap().as_mut() {
        s.remove(&id);
    }
}

pub fn release_all() {
    *HELD.lock().unwrap() = None;
}

fn gate_wait(node: &Node) {
    let me = std::thread::current().id();
    let t0 = std::time::Instant::now();
    loop {
        if !HELD.lock().unwrap().as_ref().map(|s| s.contains(&me)).unwrap_or(false) {
            return;
        }
        {
            let n = node.lock().unwrap();
            if !n.up || !n.rpc_up {
                return;
            }
        }
        if t0.elapsed() > std::time::Duration::from_secs(60) {
            return;
        }
        std::thread::sleep(std::time::Duration::from_millis(2));
    }
}

pub struct SimTransport(pub Node);

#[derive(Debug)]
struct Down;
impl fmt::Display for Down {
    fn fmt(&self, f: &mut fmt::Formatter) -> fmt::Result {
        write!(f, "connection refused (simulated)")
    }
}
impl std::error::Error for Down {}

fn raw(v: serde_json::Value) -> Box<RawValue> {
    RawValue::from_string(v.to_string()).unwrap()
}

impl jsonrpc::client::Transport for SimTransport {
    fn send_request(&self, req: jsonrpc::Request) -> Result<jsonrpc::Response, jsonrpc::Error> {
        // crash points immediately before / after every node RPC (never while holding the node's own lock)
        crate::conc::rpc_yield();
        gate_wait(&self.0);
        {
            // a bare HTTP error is no verdict about the transaction: the transport reports it as its own error kind
            let mut node = self.0.lock().unwrap();
            let i = node.rpc_calls;
            if node.faults.rpc_http503_at.remove(&i) {
                node.rpc_calls += 1;
                if req.method == "sendrawtransaction" || req.method == "getrawtransaction" {
                    let txid = crate::simnode::txid_zero();
                    node.rpc_log.push(RpcLogEntry { method: if req.method == "sendrawtransaction" { "send" } else { "get" }, txid,
                                                    verdict: "err".into(), code: 503, tid: std::thread::current().id(), taken: false });
                }
                return Err(jsonrpc::Error::Transport(Box::new(jsonrpc::simple_http::Error::HttpErrorCode(503))));
            }
        }
        if req.method == "getrawtransaction" {
            let mut node = self.0.lock().unwrap();
            if node.up && node.rpc_up {
                if let Some(odd) = node.faults.get_odd.pop_front() {
                    node.rpc_calls += 1;
                    let params: Vec<serde_json::Value> = req.params.and_then(|p| serde_json::from_str(p.get()).ok()).unwrap_or_default();
                    let txid: Txid = params.first().and_then(|v| v.as_str()).and_then(|s| s.parse().ok()).unwrap_or_else(crate::simnode::txid_zero);
                    node.rpc_log.push(RpcLogEntry { method: "get", txid, verdict: "no".into(), code: odd.unwrap_or(0), tid: std::thread::current().id(), taken: false });
                    return Ok(match odd {
                        Some(code) => jsonrpc::Response {
                            result: None,
                            error: Some(jsonrpc::error::RpcError { code, message: "simulated error".into(), data: None }),
                            id: req.id.clone(),
                            jsonrpc: Some("2.0".into()),
                        },
                        None => jsonrpc::Response { result: Some(raw(json!("zz"))), error: None, id: req.id.clone(), jsonrpc: Some("2.0".into()) },
                    });
                }
            }
        }
        teos_common::verif::crashpoint("rpc:before");
        let r = self.handle(req);
        teos_common::verif::crashpoint("rpc:after");
        r
    }

    fn send_batch(&self, _: &[jsonrpc::Request]) -> Result<Vec<jsonrpc::Response>, jsonrpc::Error> {
        Err(jsonrpc::Error::EmptyBatch)
    }

    fn fmt_target(&self, f: &mut fmt::Formatter) -> fmt::Result {
        write!(f, "simnode")
    }
}

impl SimTransport {
    fn handle(&self, req: jsonrpc::Request) -> Result<jsonrpc::Response, jsonrpc::Error> {
        let params: Vec<serde_json::Value> = match req.params {
            Some(p) => serde_json::from_str(p.get()).unwrap_or_default(),
            None => vec![],
        };
        let mut node = self.0.lock().unwrap();
        let ok = |v: serde_json::Value| jsonrpc::Response {
            result: Some(raw(v)),
            error: None,
            id: req.id.clone(),
            jsonrpc: Some("2.0".into()),
        };
        let rpc_err = |code: i32, msg: &str| jsonrpc::Response {
            result: None,
            error: Some(jsonrpc::error::RpcError { code, message: msg.into(), data: None }),
            id: req.id.clone(),
            jsonrpc: Some("2.0".into()),
        };
        match req.method {
            "sendrawtransaction" => {
                let hex_tx = params.first().and_then(|v| v.as_str()).unwrap_or("");
                let tx: Transaction = match hex::decode(hex_tx).ok().and_then(|b| consensus::deserialize(&b).ok()) {
                    Some(t) => t,
                    None => return Ok(rpc_err(-22, "TX decode failed")),
                };
                match node.send_raw_transaction(&tx) {
                    Verdict::Ok => Ok(ok(json!(tx.compute_txid().to_string()))),
                    Verdict::Code(c) => Ok(rpc_err(c, "simulated verdict")),
                    Verdict::Err => Err(jsonrpc::Error::Transport(Box::new(Down))),
                }
            }
            "getrawtransaction" => {
                let txid: Txid = params.first().and_then(|v| v.as_str()).and_then(|s| s.parse().ok()).unwrap();
                match node.get_raw_transaction(&txid) {
                    Err(()) => Err(jsonrpc::Error::Transport(Box::new(Down))),
                    Ok(None) => Ok(rpc_err(-5, "No such mempool transaction")),
                    Ok(Some(tx)) => {
                        let h = hex::encode(consensus::serialize(&tx));
                        Ok(ok(json!({"hex": h, "txid": txid.to_string(), "hash": txid.to_string(), "size": 0,
                                     "vsize": 0, "version": 2, "locktime": 0, "vin": [], "vout": []})))
                    }
                }
            }
            "getblockcount" => {
                if !node.up || !node.rpc_up {
                    Err(jsonrpc::Error::Transport(Box::new(Down)))
                } else {
                    Ok(ok(json!(node.height())))
                }
            }
            other => Ok(rpc_err(-32601, &format!("method {other} not simulated"))),
        }
    }
}

pub fn rpc_client(node: &Node) -> bitcoincore_rpc::Client {
    bitcoincore_rpc::Client::from_jsonrpc(jsonrpc::client::Client::with_transport(SimTransport(node.clone())))
}

// ---------------------------------------------------------------------------------------------------
// block source

pub struct SimSource(pub Node);

impl BlockSource for SimSource {
    fn get_header<'a>(
        &'a self,
        header_hash: &'a BlockHash,
        _height_hint: Option<u32>,
    ) -> AsyncBlockSourceResult<'a, BlockHeaderData> {
        Box::pin(async move {
            let mut node = self.0.lock().unwrap();
            if !node.up {
                return Err(BlockSourceError::transient("connection refused (simulated)"));
            }
            if node.faults.header_fail > 0 {
                node.faults.header_fail -= 1;
                return Err(BlockSourceError::transient("header download failed (simulated)"));
            }
            match node.known.get(header_hash) {
                Some((b, h)) => Ok(BlockHeaderData { header: b.header, height: *h, chainwork: NodeState::chainwork(*h) }),
                None => Err(BlockSourceError::persistent("header not found")),
            }
        })
    }

    fn get_block<'a>(&'a self, header_hash: &'a BlockHash) -> AsyncBlockSourceResult<'a, BlockData> {
        Box::pin(async move {
            let mut node = self.0.lock().unwrap();
            if !node.up {
                return Err(BlockSourceError::transient("connection refused (simulated)"));
            }
            if let Some((n, transient)) = node.faults.block_fail.get(header_hash).cloned() {
                if n > 0 {
                    node.faults.block_fail.insert(*header_hash, (n - 1, transient));
                    return Err(if transient {
                        BlockSourceError::transient("block download failed (simulated)")
                    } else {
                        BlockSourceError::persistent("block download failed (simulated)")
                    });
                }
            }
            match node.known.get(header_hash) {
                Some((b, _)) => Ok(BlockData::FullBlock(b.clone())),
                None => Err(BlockSourceError::persistent("block not found")),
            }
        })
    }

    fn get_best_block(&self) -> AsyncBlockSourceResult<(BlockHash, Option<u32>)> {
        Box::pin(async move {
            let mut node = self.0.lock().unwrap();
            if !node.up {
                return Err(BlockSourceError::transient("connection refused (simulated)"));
            }
            if node.faults.best_fail > 0 {
                node.faults.best_fail -= 1;
                return Err(BlockSourceError::transient("best block query failed (simulated)"));
            }
            Ok((node.tip().block_hash(), Some(node.height())))
        })
    }
}

pub fn txid_zero() -> Txid {
    Txid::all_zeros()
}
