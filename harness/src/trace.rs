//! ndjson trace output.
use std::fs::File;
use std::io::{BufWriter, Write};

pub struct TraceWriter {
    out: BufWriter<File>,
    pub n: usize,
}

impl TraceWriter {
    pub fn create(path: &str) -> Self {
        TraceWriter {
            out: BufWriter::new(File::create(path).expect("cannot create trace file")),
            n: 0,
        }
    }

    pub fn emit(&mut self, v: &serde_json::Value) {
        serde_json::to_writer(&mut self.out, v).unwrap();
        self.out.write_all(b"\n").unwrap();
        // flushed per event: if the code under test takes the process down the trace so far is still judged
        self.out.flush().unwrap();
        self.n += 1;
    }

    pub fn flush(&mut self) {
        self.out.flush().unwrap();
    }

    pub fn finish(mut self) -> usize {
        self.out.flush().unwrap();
        self.n
    }
}
