#!/bin/bash
# Run once in /verif after a fresh restore (offline). Builds the harness against /repo's working tree, parses every
# specification, and runs the binding self-tests.
set -e
cd "$(dirname "$0")"
export CARGO_NET_OFFLINE=true
mkdir -p work evidence
[ -f harness/Cargo.lock ] || cp /repo/Cargo.lock harness/Cargo.lock
(cd harness && cargo build --offline --profile verif --bins 2>&1 | tail -3)
for f in spec/*.tla; do
  (cd spec && tla-sany "$(basename "$f")" > /dev/null 2>&1) || { echo "SANY failed on $f"; exit 1; }
done
python3 lib/selftest.py
echo "setup ok"
